/-
  Helper lemmas for the typed layer (`Amqp.Typed`): soundness of `Value.beq`,
  the derive macro's null-buffering loop, the tree-level round trip.
-/
import Theorems.Lemmas.Codec
import Amqp.Typed

namespace Amqp.Typed
open Amqp.Codec Amqp.Gen.Codes

/-! ### `Value.beq` decides equality -/

mutual
  theorem beq_eq : ∀ (a b : Value), Value.beq a b = true → a = b
    | .null, b, h => by cases b <;> simp [Value.beq] at h ⊢
    | .bool x, b, h => by cases b <;> simp [Value.beq] at h ⊢; exact h
    | .fixed k x, b, h => by
      cases b <;> simp [Value.beq] at h ⊢
      exact h
    | .var k x, b, h => by
      cases b <;> simp [Value.beq] at h ⊢
      exact h
    | .list x, b, h => by
      cases b <;> simp [Value.beq] at h ⊢
      exact beqList_eq _ _ h
    | .map x, b, h => by
      cases b <;> simp [Value.beq] at h ⊢
      exact beqList_eq _ _ h
    | .array x, b, h => by
      cases b <;> simp [Value.beq] at h ⊢
      exact beqList_eq _ _ h
    | .described d v, b, h => by
      cases b <;> simp [Value.beq] at h ⊢
      exact ⟨beq_eq _ _ h.1, beq_eq _ _ h.2⟩
  theorem beqList_eq : ∀ (a b : List Value), Value.beqList a b = true → a = b
    | [], b, h => by cases b <;> simp [Value.beqList] at h ⊢
    | x :: xs, b, h => by
      cases b with
      | nil => simp [Value.beqList] at h
      | cons y ys =>
        simp [Value.beqList] at h ⊢
        exact ⟨beq_eq _ _ h.1, beqList_eq _ _ h.2⟩
end

mutual
  theorem beq_refl : ∀ (a : Value), Value.beq a a = true
    | .null => by simp [Value.beq]
    | .bool x => by simp [Value.beq]
    | .fixed k x => by simp [Value.beq]
    | .var k x => by simp [Value.beq]
    | .list x => by simp [Value.beq]; exact beqList_refl x
    | .map x => by simp [Value.beq]; exact beqList_refl x
    | .array x => by simp [Value.beq]; exact beqList_refl x
    | .described d v => by simp [Value.beq]; exact ⟨beq_refl d, beq_refl v⟩
  theorem beqList_refl : ∀ (a : List Value), Value.beqList a a = true
    | [] => by simp [Value.beqList]
    | x :: xs => by simp [Value.beqList]; exact ⟨beq_refl x, beqList_refl xs⟩
end

theorem beq_iff (a b : Value) : Value.beq a b = true ↔ a = b :=
  ⟨beq_eq a b, fun h => h ▸ beq_refl a⟩

instance : DecidableEq Value := fun a b => decidable_of_iff _ (beq_iff a b)

/-! ### the derive macro's null buffering writes the fields without the trailing nulls -/

/-- the field loop of the generated `serialize`, seen from the values of the slots -/
def serSlots : List Value → SerSt → Option SerSt
  | [], st => some st
  | v :: vs, st =>
    if isNull v then serSlots vs (serField st none)
    else match enc .none v with
      | none => none
      | some e => serSlots vs (serField st (some e))

theorem dtn_cons (v : Value) (vs : List Value) :
    dropTrailingNulls (v :: vs) =
      if (dropTrailingNulls vs).isEmpty then (if isNull v then [] else [v]) else v :: dropTrailingNulls vs := by
  simp only [dropTrailingNulls]
  cases dropTrailingNulls vs <;> simp

theorem isNull_eq (v : Value) (h : isNull v = true) : v = .null := by
  cases v <;> simp [isNull] at h ⊢

theorem enc_null : enc .none .null = some [b8 cNull] := by simp [enc]

theorem encAll_cons (v : Value) (vs : List Value) :
    encAll (v :: vs) = (match enc .none v with
      | none => none
      | some a => match encAll vs with
        | none => none
        | some b => some (a ++ b)) := by
  simp only [encAll, bind, Option.bind]
  cases enc .none v <;> simp
  cases encAll vs <;> simp

theorem serSlots_eq : ∀ (vs : List Value) (st : SerSt), serSlots vs st =
    (match encAll (dropTrailingNulls vs) with
     | none => none
     | some es => some (if (dropTrailingNulls vs).isEmpty then ⟨st.buf, st.count, st.nulls + vs.length⟩
        else ⟨st.buf ++ List.replicate st.nulls (b8 cNull) ++ es,
              st.count + st.nulls + (dropTrailingNulls vs).length,
              vs.length - (dropTrailingNulls vs).length⟩))
  | [], st => by cases st; simp [serSlots, dropTrailingNulls, encAll]
  | v :: vs, st => by
    have ih := serSlots_eq vs
    rw [dtn_cons]
    by_cases hv : isNull v = true
    · have := isNull_eq v hv; subst this
      simp only [serSlots, isNull, if_true, serField]
      rw [ih]
      cases hd : dropTrailingNulls vs with
      | nil => simp [encAll]; omega
      | cons r rs =>
        simp only [List.isEmpty_cons, Bool.false_eq_true, if_false]
        rw [encAll_cons .null (r :: rs), enc_null]
        cases encAll (r :: rs) with
        | none => simp
        | some es =>
          simp only [Option.some.injEq, SerSt.mk.injEq, List.length_cons]
          refine ⟨?_, by omega, by omega⟩
          rw [List.replicate_succ']
          simp [List.append_assoc]
    · have hv' : isNull v = false := by simpa using hv
      simp only [serSlots, hv', Bool.false_eq_true, if_false]
      cases he : enc .none v with
      | none =>
        simp only []
        cases hd : dropTrailingNulls vs with
        | nil => simp [encAll_cons, he]
        | cons r rs => simp [encAll_cons, he]
      | some e =>
        simp only [serField]
        rw [ih]
        cases hd : dropTrailingNulls vs with
        | nil =>
          simp only [List.isEmpty_nil, if_true, encAll, encAll_cons, he]
          simp
        | cons r rs =>
          simp only [List.isEmpty_cons, Bool.false_eq_true, if_false]
          rw [encAll_cons v (r :: rs), he]
          cases encAll (r :: rs) with
          | none => simp
          | some es =>
            simp only [Option.some.injEq, SerSt.mk.injEq, List.length_cons, List.replicate_zero,
              List.append_nil, List.append_assoc]
            refine ⟨trivial, by omega, by omega⟩

/-! ### well-typed (canonical) typed values -/

/-- what a field of each kind may hold (`ok`: the value is of the field's type) -/
def FieldOk1 (f : Field) (t : TV) (ok : Prop) : Prop :=
  match f.kind with
  | .required => ok
  | .optional => t = .absent ∨ ok
  | .dflt => (∃ v, t = .leaf v) ∧ ok
  | .multiple => t = .absent ∨ (ok ∧ t ≠ .leaf (.array []))

mutual
  /-- `tv` is a value of type `ty`: leaves are values their typed decoder yields, composites
      are declared, allowed in this place, and hold one well-typed entry per declared field -/
  def TVOk (env : List Schema) : FTy → TV → Prop
    | _, .absent => False
    | ty, .leaf v => ∃ p, ty = .prim p ∧ accepts p v = some v ∧ WF v
    | ty, .comp n fs => ∃ names, ty = .comp names ∧ names.contains n = true ∧
        (match lookup env n with
         | none => False
         | some s => FieldsOk env s.fields fs)
  def FieldsOk (env : List Schema) : List Field → List TV → Prop
    | [], [] => True
    | f :: fs, t :: ts => FieldOk1 f t (TVOk env f.ty t) ∧ FieldsOk env fs ts
    | _, _ => False
end

theorem accepts_not_null (p : Prim) (v w : Value) (h : accepts p v = some w) :
    isNull v = false ∧ isNull w = false := by
  unfold accepts at h
  split at h <;> (try split at h) <;> simp at h <;> subst h <;> simp [isNull]

/-! ### the encoder writes the encoding of the value tree -/

theorem slotOf_absent (f : Field) : slotOf f .null = .null := by
  unfold slotOf; split <;> simp

theorem enc_described (d v : Value) :
    enc .none (.described d v) = (match enc .none d with
      | none => none
      | some a => match enc .none v with
        | none => none
        | some b => some (b8 cDescribedType :: a ++ b)) := by
  simp only [enc, bind, Option.bind]
  cases enc .none d <;> simp
  cases enc .none v <;> simp

theorem enc_list (vs : List Value) :
    enc .none (.list vs) = (match encAll vs with
      | none => none
      | some buf => writeList .none vs.length buf) := by
  simp only [enc, bind, Option.bind]
  cases encAll vs <;> simp

theorem slot_leaf_cases (f : Field) (v : Value) :
    (elided f (.leaf v) = true ∧ slotOf f v = .null) ∨ (elided f (.leaf v) = false ∧ slotOf f v = v) := by
  unfold elided slotOf
  cases f.kind <;> simp
  by_cases hb : Value.beq v f.dflt = true <;> simp [hb]

mutual
  theorem encTV_eq (env : List Schema) : ∀ (tv : TV) (ty : FTy), TVOk env ty tv →
      encTV env tv = enc .none (toTree env tv)
    | .absent, _, h => by simp [TVOk] at h
    | .leaf v, _, _ => by simp [encTV, toTree]
    | .comp n fs, ty, h => by
      obtain ⟨names, _, _, hl⟩ := h
      cases hlk : lookup env n with
      | none => simp [hlk] at hl
      | some s =>
        simp only [hlk] at hl
        simp only [encTV, toTree, hlk]
        rw [encFields_eq env fs s.fields hl, serSlots_eq, enc_described, enc_list]
        have hd : enc .none (.fixed .ulong (be64 s.code)) = some (encFixed .none .ulong (be64 s.code)) := by
          simp [enc]
        rw [hd]
        cases he : encAll (dropTrailingNulls (slots env s.fields fs)) with
        | none => simp
        | some es =>
          simp only []
          cases hdt : dropTrailingNulls (slots env s.fields fs) with
          | nil =>
            rw [hdt] at he
            simp [encAll] at he
            subst he
            simp only [List.isEmpty_nil, if_true, List.length_nil]
            rfl
          | cons r rs =>
            simp only [List.isEmpty_cons, Bool.false_eq_true, if_false, List.nil_append, List.replicate_zero,
              Nat.zero_add, List.length_cons]
            cases writeList .none (rs.length + 1) es <;> simp
  theorem encFields_eq (env : List Schema) : ∀ (ts : List TV) (fs : List Field), FieldsOk env fs ts →
      ∀ (st : SerSt), encFields env fs ts st = serSlots (slots env fs ts) st
    | [], fs, _, st => by
      cases fs <;> simp [encFields, slots, serSlots]
    | t :: ts, [], h, st => by simp [FieldsOk] at h
    | t :: ts, f :: fs, h, st => by
      obtain ⟨h1, h2⟩ := h
      have ih := encFields_eq env ts fs h2
      simp only [encFields, slots, serSlots]
      cases t with
      | absent =>
        simp [elided, toTree, slotOf_absent, isNull, ih]
      | leaf v =>
        have hv : ∃ p, f.ty = .prim p ∧ accepts p v = some v ∧ WF v := by
          unfold FieldOk1 at h1
          split at h1
          · exact h1
          · rcases h1 with h1 | h1
            · cases h1
            · exact h1
          · exact h1.2
          · rcases h1 with h1 | h1
            · cases h1
            · exact h1.1
        obtain ⟨p, _, hacc, _⟩ := hv
        have hnn := (accepts_not_null p v v hacc).1
        simp only [toTree]
        rcases slot_leaf_cases f v with ⟨he, hs⟩ | ⟨he, hs⟩
        · simp [he, hs, isNull, ih]
        · simp only [he, hs, hnn, encTV, Bool.false_eq_true, if_false]
          cases enc .none v <;> simp [ih]
      | comp n gs =>
        have hok : TVOk env f.ty (.comp n gs) ∧ f.kind ≠ .dflt := by
          unfold FieldOk1 at h1
          split at h1
          · rename_i hk; exact ⟨h1, by simp [hk]⟩
          · rename_i hk
            rcases h1 with h1 | h1
            · cases h1
            · exact ⟨h1, by simp [hk]⟩
          · obtain ⟨⟨v, hv⟩, _⟩ := h1; cases hv
          · rename_i hk
            rcases h1 with h1 | h1
            · cases h1
            · exact ⟨h1.1, by simp [hk]⟩
        have ihc := encTV_eq env (.comp n gs) f.ty hok.1
        have hslot : slotOf f (toTree env (.comp n gs)) = toTree env (.comp n gs) := by
          unfold slotOf
          split
          · rename_i hk; exact absurd hk hok.2
          · rfl
        obtain ⟨names, _, _, hl⟩ := hok.1
        have hnn : isNull (toTree env (.comp n gs)) = false := by
          cases hlk : lookup env n with
          | none => simp [hlk] at hl
          | some s => simp [toTree, hlk, isNull]
        rw [hslot]
        simp only [elided, Bool.false_eq_true, if_false, hnn, ihc]
        cases enc .none (toTree env (.comp n gs)) <;> simp [ih]
end

/-! ### the environment of schemas -/

structure EnvOk (env : List Schema) : Prop where
  distinct : env.Pairwise (fun a b => a.name ≠ b.name ∧ a.code ≠ b.code ∧ nameBytes a.name ≠ nameBytes b.name)
  codes : ∀ s ∈ env, s.code < 18446744073709551616
  dflts : ∀ s ∈ env, ∀ f ∈ s.fields, f.kind = .dflt →
    ∃ p, f.ty = .prim p ∧ accepts p f.dflt = some f.dflt ∧ WF f.dflt
  sizes : ∀ s ∈ env, s.fields.length ≤ MAX_ARRAY_COUNT
  names : ∀ s ∈ env, validUtf8 (nameBytes s.name) = true ∧ (nameBytes s.name).length < 4294967296

theorem lookup_some (env : List Schema) (n : String) (s : Schema) (h : lookup env n = some s) :
    s ∈ env ∧ s.name = n := by
  unfold lookup at h
  refine ⟨List.mem_of_find?_eq_some h, ?_⟩
  have := List.find?_some h
  simpa using this

theorem find?_unique {α : Type} (R : α → α → Prop) (p : α → Bool) :
    ∀ (l : List α), l.Pairwise R → ∀ a ∈ l, p a = true →
      (∀ b ∈ l, p b = true → ¬ R a b ∧ ¬ R b a) → l.find? p = some a
  | [], _, a, ha, _, _ => by cases ha
  | x :: xs, hp, a, ha, hpa, hu => by
    rw [List.pairwise_cons] at hp
    rw [List.find?_cons]
    cases hx : p x with
    | true =>
      simp only []
      rcases List.mem_cons.mp ha with rfl | hin
      · rfl
      · exact absurd (hp.1 a hin) (hu x (List.mem_cons_self) hx).2
    | false =>
      simp only []
      rcases List.mem_cons.mp ha with rfl | hin
      · rw [hpa] at hx; cases hx
      · exact find?_unique R p xs hp.2 a hin hpa (fun b hb hpb => hu b (List.mem_cons_of_mem _ hb) hpb)

theorem fromBe_append : ∀ (a b : Bytes), fromBe (a ++ b) = fromBe a * 256 ^ b.length + fromBe b
  | [], b => by simp [fromBe]
  | x :: xs, b => by
    simp only [List.cons_append, fromBe, List.length_append, fromBe_append xs b]
    rw [Nat.pow_add]
    simp only [Nat.add_mul, Nat.mul_assoc, Nat.add_assoc]

theorem fromBe_be64 (n : Nat) (h : n < 18446744073709551616) : fromBe (be64 n) = n := by
  unfold be64
  rw [fromBe_append, fromBe_be32 _ (by omega), fromBe_be32 _ (by omega)]
  simp only [be32_length]
  omega

theorem be64_length (n : Nat) : (be64 n).length = 8 := by simp [be64, be32_length]

/-- the schema a composite was written with is the one its descriptor is read as -/
theorem find_schema (env : List Schema) (hE : EnvOk env) (names : List String) (s : Schema) (hs : s ∈ env)
    (hn : names.contains s.name = true) (d : Value)
    (hd : d = .fixed .ulong (be64 s.code) ∨ d = .var .symbol (nameBytes s.name)) :
    env.find? (fun s' => names.contains s'.name && descriptorMatches s' d) = some s := by
  apply find?_unique _ _ env hE.distinct s hs
  · rcases hd with rfl | rfl
    · have hn' : s.name ∈ names := by simpa using hn
      simp [hn', descriptorMatches, fromBe_be64 _ (hE.codes s hs)]
    · have hn' : s.name ∈ names := by simpa using hn
      simp [hn', descriptorMatches]
  · intro b _ hb
    simp only [Bool.and_eq_true] at hb
    rcases hd with rfl | rfl
    · have : b.code = s.code := by
        have := hb.2
        simp only [descriptorMatches, fromBe_be64 _ (hE.codes s hs), beq_iff_eq] at this
        exact this.symm
      exact ⟨fun h => h.2.1 this.symm, fun h => h.2.1 this⟩
    · have : nameBytes b.name = nameBytes s.name := by
        have := hb.2
        simp only [descriptorMatches, beq_iff_eq] at this
        exact this.symm
      exact ⟨fun h => h.2.2 this.symm, fun h => h.2.2 this⟩

/-! ### null and missing fields read alike -/

theorem fromSlots_nil (env : List Schema) (fs : List Field) : fromSlots env fs [] = missingAll fs := by
  cases fs <;> simp [fromSlots]

theorem fromSlots_cons (env : List Schema) (f : Field) (fs : List Field) (v : Value) (vs : List Value) :
    fromSlots env (f :: fs) (v :: vs) =
      (match (if isNull v then missing f else (fromTree env f.ty v).map (normMultiple f)), fromSlots env fs vs with
       | some t, some ts => some (t :: ts)
       | _, _ => none) := by
  simp only [fromSlots]
  cases (if isNull v then missing f else (fromTree env f.ty v).map (normMultiple f)) <;>
    cases fromSlots env fs vs <;> rfl

theorem fromSlots_nulls (env : List Schema) : ∀ (k : Nat) (fs : List Field), k ≤ fs.length →
    fromSlots env fs (List.replicate k .null) = missingAll fs
  | 0, fs, _ => by simp [fromSlots_nil]
  | k + 1, [], h => by simp at h
  | k + 1, f :: fs, h => by
    rw [List.replicate_succ, fromSlots_cons, fromSlots_nulls env k fs (by simpa using h)]
    simp only [isNull, if_true, missingAll]
    cases missing f <;> cases missingAll fs <;> rfl

theorem fromSlots_pad (env : List Schema) : ∀ (vs : List Value) (fs : List Field) (k : Nat),
    vs.length + k ≤ fs.length → fromSlots env fs (vs ++ List.replicate k .null) = fromSlots env fs vs
  | [], fs, k, h => by
    simp only [List.nil_append, fromSlots_nil]
    exact fromSlots_nulls env k fs (by simpa using h)
  | v :: vs, [], k, h => by simp at h
  | v :: vs, f :: fs, k, h => by
    rw [List.cons_append, fromSlots_cons, fromSlots_cons,
      fromSlots_pad env vs fs k (by simp only [List.length_cons] at h; omega)]

theorem dtn_spec : ∀ (vs : List Value),
    dropTrailingNulls vs ++ List.replicate (vs.length - (dropTrailingNulls vs).length) .null = vs
  | [] => by simp [dropTrailingNulls]
  | v :: vs => by
    have ih := dtn_spec vs
    rw [dtn_cons]
    cases hd : dropTrailingNulls vs with
    | nil =>
      rw [hd] at ih
      simp only [List.isEmpty_nil, if_true]
      by_cases hv : isNull v = true
      · have := isNull_eq v hv; subst this
        simp only [isNull, if_true, List.length_nil, List.nil_append, List.length_cons, Nat.sub_zero] at ih ⊢
        rw [List.replicate_succ, ih]
      · have hv' : isNull v = false := by simpa using hv
        simp only [hv', Bool.false_eq_true, if_false, List.length_cons, List.length_nil,
          List.cons_append, List.nil_append, List.cons.injEq, true_and] at ih ⊢
        simpa using ih
    | cons r rs =>
      rw [hd] at ih
      simp only [List.isEmpty_cons, Bool.false_eq_true, if_false, List.length_cons, List.cons_append,
        List.cons.injEq, true_and] at ih ⊢
      have : vs.length + 1 - (rs.length + 1 + 1) = vs.length - (rs.length + 1) := by omega
      rw [this]; exact ih

theorem dtn_length_le (vs : List Value) : (dropTrailingNulls vs).length ≤ vs.length := by
  have h := congrArg List.length (dtn_spec vs)
  simp only [List.length_append, List.length_replicate] at h
  omega

/-- leaving out the trailing nulls, or keeping any number of them, is read as the full list -/
theorem fromSlots_padded (env : List Schema) (fs : List Field) (vs : List Value) (pad : Nat)
    (h : vs.length = fs.length) :
    fromSlots env fs (padNulls pad (dropTrailingNulls vs) fs.length) = fromSlots env fs vs := by
  have hle := dtn_length_le vs
  unfold padNulls
  rw [fromSlots_pad env _ fs _ (by omega)]
  have h2 := fromSlots_pad env (dropTrailingNulls vs) fs (vs.length - (dropTrailingNulls vs).length) (by omega)
  rw [dtn_spec] at h2
  exact h2.symm

theorem fromSlots_dtn (env : List Schema) (fs : List Field) (vs : List Value) (h : vs.length = fs.length) :
    fromSlots env fs (dropTrailingNulls vs) = fromSlots env fs vs := by
  have := fromSlots_padded env fs vs 0 h
  simpa [padNulls] using this

/-! ### reading back any variant of the value tree gives the typed value -/

theorem fromTree_prim (env : List Schema) (p : Prim) (u : Value) :
    fromTree env (.prim p) u = (accepts p u).map .leaf := by
  cases u <;> simp [fromTree]
  cases p <;> simp [accepts]

theorem accepts_leafV (p : Prim) (single : Bool) (w : Value) (h : accepts p w = some w) :
    accepts p (leafV single w) = some w := by
  unfold leafV
  split
  · rename_i bs
    cases p <;> simp [accepts, allSymbols] at h ⊢
  · exact h

theorem accepts_idem (p : Prim) (u w : Value) (h : accepts p u = some w) : accepts p w = some w := by
  unfold accepts at h
  split at h <;> (try split at h) <;> simp at h <;> subst h <;> simp_all [accepts, allSymbols]

theorem slotsV_length (env : List Schema) : ∀ (ts : List TV) (fs : List Field) (ex : List Bool) (subs : List TCh),
    FieldsOk env fs ts → (slotsV env fs ex subs ts).length = fs.length
  | [], [], _, _, _ => by simp [slotsV]
  | [], _ :: _, _, _, h => by simp [FieldsOk] at h
  | _ :: _, [], _, _, h => by simp [FieldsOk] at h
  | t :: ts, f :: fs, ex, subs, h => by
    simp only [slotsV, List.length_cons]
    rw [slotsV_length env ts fs ex.tail subs.tail h.2]

theorem normMultiple_comp (f : Field) (n : String) (gs : List TV) : normMultiple f (.comp n gs) = .comp n gs := by
  unfold normMultiple; split <;> simp_all

mutual
  theorem fromTree_toTreeV (env : List Schema) (hE : EnvOk env) : ∀ (tv : TV) (ty : FTy) (ch : TCh),
      TVOk env ty tv → fromTree env ty (toTreeV env ch tv) = some tv
    | .absent, _, _, h => by simp [TVOk] at h
    | .leaf w, ty, ch, h => by
      obtain ⟨p, rfl, hacc, _⟩ := h
      rw [fromTree_prim]
      cases ch with
      | leaf single => simp [toTreeV, accepts_leafV p single w hacc]
      | comp a b c d => simp [toTreeV, hacc]
    | .comp n fs, ty, ch, h => by
      obtain ⟨names, rfl, hn, hl⟩ := h
      cases hlk : lookup env n with
      | none => simp [hlk] at hl
      | some s =>
        simp only [hlk] at hl
        obtain ⟨hs, hname⟩ := lookup_some env n s hlk
        have hn' : names.contains s.name = true := by rw [hname]; exact hn
        cases ch with
        | leaf single =>
          simp only [toTreeV, hlk, fromTree]
          rw [find_schema env hE names s hs hn' _ (Or.inl rfl)]
          simp only [fromBody]
          rw [fromSlots_dtn env s.fields _ (slotsV_length env fs s.fields [] [] hl),
            fromSlots_slotsV env hE fs s.fields [] [] hl (hE.dflts s hs)]
          simp [hname]
        | comp byName pad ex subs =>
          simp only [toTreeV, hlk, fromTree]
          rw [find_schema env hE names s hs hn' _ (by cases byName <;> simp)]
          simp only [fromBody]
          rw [fromSlots_padded env s.fields _ pad (slotsV_length env fs s.fields ex subs hl),
            fromSlots_slotsV env hE fs s.fields ex subs hl (hE.dflts s hs)]
          simp [hname]
  theorem fromSlots_slotsV (env : List Schema) (hE : EnvOk env) : ∀ (ts : List TV) (fs : List Field)
      (ex : List Bool) (subs : List TCh), FieldsOk env fs ts →
      (∀ f ∈ fs, f.kind = .dflt → ∃ p, f.ty = .prim p ∧ accepts p f.dflt = some f.dflt ∧ WF f.dflt) →
      fromSlots env fs (slotsV env fs ex subs ts) = some ts
    | [], [], _, _, _, _ => by simp [slotsV, fromSlots, missingAll]
    | [], _ :: _, _, _, h, _ => by simp [FieldsOk] at h
    | _ :: _, [], _, _, h, _ => by simp [FieldsOk] at h
    | t :: ts, f :: fs, ex, subs, h, hd => by
      obtain ⟨h1, h2⟩ := h
      have ih := fromSlots_slotsV env hE ts fs ex.tail subs.tail h2
        (fun g hg => hd g (List.mem_cons_of_mem _ hg))
      simp only [slotsV]
      rw [fromSlots_cons, ih]
      have key : (if isNull (slotV f (ex.headD false) (toTreeV env (subs.headD (.leaf false)) t)) then missing f
          else (fromTree env f.ty (slotV f (ex.headD false) (toTreeV env (subs.headD (.leaf false)) t))).map
            (normMultiple f)) = some t := by
        cases t with
        | absent =>
          have hk : f.kind = .optional ∨ f.kind = .multiple := by
            unfold FieldOk1 at h1
            split at h1
            · simp [TVOk] at h1
            · rename_i hk; exact Or.inl hk
            · obtain ⟨⟨v, hv⟩, _⟩ := h1; cases hv
            · rename_i hk; exact Or.inr hk
          have hsl : slotV f (ex.headD false) (toTreeV env (subs.headD (.leaf false)) .absent) = .null := by
            simp only [toTreeV]
            unfold slotV
            rcases hk with hk | hk <;> simp [hk]
          rw [hsl]
          rcases hk with hk | hk <;> simp [isNull, missing, hk]
        | leaf w =>
          have hv : (∃ p, f.ty = .prim p ∧ accepts p w = some w ∧ WF w) ∧
              (f.kind = .multiple → w ≠ .array []) := by
            unfold FieldOk1 at h1
            split at h1
            · rename_i hk; exact ⟨h1, by simp [hk]⟩
            · rename_i hk
              rcases h1 with h1 | h1
              · cases h1
              · exact ⟨h1, by simp [hk]⟩
            · rename_i hk; exact ⟨h1.2, by simp [hk]⟩
            · rcases h1 with h1 | h1
              · cases h1
              · exact ⟨h1.1, fun _ hw => h1.2 (by rw [hw])⟩
          obtain ⟨⟨p, hty, hacc, _⟩, hmul⟩ := hv
          -- the value written for the leaf
          have hu : ∃ u, toTreeV env (subs.headD (.leaf false)) (.leaf w) = u ∧ accepts p u = some w := by
            cases subs.headD (.leaf false) with
            | leaf single => exact ⟨_, rfl, by simp only [toTreeV]; exact accepts_leafV p single w hacc⟩
            | comp a b c d => exact ⟨_, rfl, by simp only [toTreeV]; exact hacc⟩
          obtain ⟨u, hu1, hu2⟩ := hu
          rw [hu1]
          have hun := (accepts_not_null p u w hu2).1
          have hnorm : normMultiple f (.leaf w) = .leaf w := by
            unfold normMultiple
            split
            · rename_i hk heq
              cases heq
              exact absurd rfl (hmul hk)
            · rfl
          unfold slotV
          split
          · rename_i hk
            obtain ⟨p', hty', hdacc, _⟩ := hd f (List.mem_cons_self) hk
            rw [hty] at hty'; cases hty'
            by_cases hb : (Value.beq u f.dflt && !(ex.headD false)) = true
            · simp only [hb, if_true, isNull, missing, hk]
              simp only [Bool.and_eq_true] at hb
              have hud := beq_eq _ _ hb.1
              rw [hud, hdacc] at hu2
              simpa using hu2
            · simp only [hb, Bool.false_eq_true, if_false, hun, hty, fromTree_prim, hu2, Option.map_some, hnorm]
          · simp only [hun, Bool.false_eq_true, if_false, hty, fromTree_prim, hu2, Option.map_some, hnorm]
        | comp n gs =>
          have hok : TVOk env f.ty (.comp n gs) ∧ f.kind ≠ .dflt := by
            unfold FieldOk1 at h1
            split at h1
            · rename_i hk; exact ⟨h1, by simp [hk]⟩
            · rename_i hk
              rcases h1 with h1 | h1
              · cases h1
              · exact ⟨h1, by simp [hk]⟩
            · obtain ⟨⟨v, hv⟩, _⟩ := h1; cases hv
            · rename_i hk
              rcases h1 with h1 | h1
              · cases h1
              · exact ⟨h1.1, by simp [hk]⟩
          have ihc := fromTree_toTreeV env hE (.comp n gs) f.ty (subs.headD (.leaf false)) hok.1
          have hsl : slotV f (ex.headD false) (toTreeV env (subs.headD (.leaf false)) (.comp n gs)) =
              toTreeV env (subs.headD (.leaf false)) (.comp n gs) := by
            unfold slotV
            split
            · rename_i hk; exact absurd hk hok.2
            · rfl
          rw [hsl]
          have hnn : isNull (toTreeV env (subs.headD (.leaf false)) (.comp n gs)) = false := by
            obtain ⟨names, _, _, hl⟩ := hok.1
            cases hlk : lookup env n with
            | none => simp [hlk] at hl
            | some s => cases subs.headD (.leaf false) <;> simp [toTreeV, hlk, isNull]
          simp only [hnn, Bool.false_eq_true, if_false, ihc, Option.map_some, normMultiple_comp]
      rw [key]
end

/-! ### every variant of the value tree is a well-formed value -/

theorem WFAll_append : ∀ (a b : List Value), WFAll (a ++ b) ↔ WFAll a ∧ WFAll b
  | [], b => by simp [WFAll]
  | x :: xs, b => by simp [WFAll, WFAll_append xs b, and_assoc]

theorem WFAll_nulls : ∀ (k : Nat), WFAll (List.replicate k .null)
  | 0 => by simp [WFAll]
  | k + 1 => by simp [List.replicate_succ, WFAll, WF, WFAll_nulls k]

theorem WFAll_dtn (vs : List Value) (h : WFAll vs) : WFAll (dropTrailingNulls vs) := by
  have := dtn_spec vs
  rw [← this, WFAll_append] at h
  exact h.1

theorem WF_leafV (single : Bool) (w : Value) (h : WF w) : WF (leafV single w) := by
  unfold leafV
  split
  · simp only [WF, WFAll] at h
    exact h.1.1
  · exact h

theorem slotV_cases (f : Field) (e : Bool) (v : Value) : slotV f e v = .null ∨ slotV f e v = v := by
  unfold slotV
  split
  · split <;> simp
  · simp

mutual
  theorem WF_toTreeV (env : List Schema) (hE : EnvOk env) : ∀ (tv : TV) (ty : FTy) (ch : TCh),
      TVOk env ty tv → WF (toTreeV env ch tv)
    | .absent, _, _, h => by simp [TVOk] at h
    | .leaf w, ty, ch, h => by
      obtain ⟨p, _, _, hw⟩ := h
      cases ch with
      | leaf single => simp only [toTreeV]; exact WF_leafV single w hw
      | comp a b c d => simp only [toTreeV]; exact hw
    | .comp n fs, ty, ch, h => by
      obtain ⟨names, _, _, hl⟩ := h
      cases hlk : lookup env n with
      | none => simp [hlk] at hl
      | some s =>
        simp only [hlk] at hl
        obtain ⟨hs, _⟩ := lookup_some env n s hlk
        have hsz := hE.sizes s hs
        have hnm := hE.names s hs
        cases ch with
        | leaf single =>
          simp only [toTreeV, hlk]
          have hall := WFAll_slotsV env hE fs s.fields [] [] hl
          have hlen := slotsV_length env fs s.fields [] [] hl
          have hle := dtn_length_le (slotsV env s.fields [] [] fs)
          refine ⟨Or.inr ⟨_, rfl⟩, ⟨be64_length _, by simp⟩, WFAll_dtn _ hall, by omega⟩
        | comp byName pad ex subs =>
          simp only [toTreeV, hlk]
          have hall := WFAll_slotsV env hE fs s.fields ex subs hl
          have hlen := slotsV_length env fs s.fields ex subs hl
          have hle := dtn_length_le (slotsV env s.fields ex subs fs)
          refine ⟨?_, ?_, ?_, ?_⟩
          · cases byName
            · exact Or.inr ⟨_, rfl⟩
            · exact Or.inl ⟨_, rfl⟩
          · cases byName
            · exact ⟨be64_length _, by simp⟩
            · exact ⟨fun _ => hnm.1, hnm.2⟩
          · unfold padNulls
            rw [WFAll_append]
            exact ⟨WFAll_dtn _ hall, WFAll_nulls _⟩
          · unfold padNulls
            simp only [List.length_append, List.length_replicate]
            omega
  theorem WFAll_slotsV (env : List Schema) (hE : EnvOk env) : ∀ (ts : List TV) (fs : List Field)
      (ex : List Bool) (subs : List TCh), FieldsOk env fs ts → WFAll (slotsV env fs ex subs ts)
    | [], [], _, _, _ => by simp [slotsV, WFAll]
    | [], _ :: _, _, _, h => by simp [FieldsOk] at h
    | _ :: _, [], _, _, h => by simp [FieldsOk] at h
    | t :: ts, f :: fs, ex, subs, h => by
      obtain ⟨h1, h2⟩ := h
      simp only [slotsV, WFAll]
      refine ⟨?_, WFAll_slotsV env hE ts fs ex.tail subs.tail h2⟩
      rcases slotV_cases f (ex.headD false) (toTreeV env (subs.headD (.leaf false)) t) with hs | hs
      · rw [hs]; simp [WF]
      · rw [hs]
        cases t with
        | absent => simp [toTreeV, WF]
        | leaf w =>
          have hv : TVOk env f.ty (.leaf w) := by
            unfold FieldOk1 at h1
            split at h1
            · exact h1
            · rcases h1 with h1 | h1
              · cases h1
              · exact h1
            · exact h1.2
            · rcases h1 with h1 | h1
              · cases h1
              · exact h1.1
          exact WF_toTreeV env hE (.leaf w) f.ty _ hv
        | comp n gs =>
          have hv : TVOk env f.ty (.comp n gs) := by
            unfold FieldOk1 at h1
            split at h1
            · exact h1
            · rcases h1 with h1 | h1
              · cases h1
              · exact h1
            · exact h1.2
            · rcases h1 with h1 | h1
              · cases h1
              · exact h1.1
          exact WF_toTreeV env hE (.comp n gs) f.ty _ hv
end

/-! ### the canonical tree is the variant with no choice taken -/

theorem slotV_false (f : Field) (v : Value) : slotV f false v = slotOf f v := by
  unfold slotV slotOf
  split <;> simp

mutual
  theorem toTree_eq (env : List Schema) : ∀ (tv : TV), toTree env tv = toTreeV env (.leaf false) tv
    | .absent => by simp [toTree, toTreeV]
    | .leaf v => by simp [toTree, toTreeV, leafV]
    | .comp n fs => by
      simp only [toTree, toTreeV]
      cases lookup env n with
      | none => rfl
      | some s => simp only [slots_eq env fs s.fields]
  theorem slots_eq (env : List Schema) : ∀ (ts : List TV) (fs : List Field),
      slots env fs ts = slotsV env fs [] [] ts
    | [], fs => by cases fs <;> simp [slots, slotsV]
    | t :: ts, [] => by simp [slots, slotsV]
    | t :: ts, f :: fs => by
      simp only [slots, slotsV, List.headD_nil, List.tail_nil, slotV_false, toTree_eq env t, slots_eq env ts fs]
end

/-! ### well-formed values have scalars of their width -/

mutual
  theorem WF_Widths : ∀ (v : Value), WF v → Widths v
    | .null, _ => by simp [Widths]
    | .bool _, _ => by simp [Widths]
    | .fixed k bs, h => by simp only [Widths]; exact h.1
    | .var _ _, _ => by simp [Widths]
    | .list vs, h => by simp only [Widths]; exact WFAll_WidthsAll vs h.1
    | .map vs, h => by simp only [Widths]; exact WFAll_WidthsAll vs h.1
    | .array vs, h => by simp only [Widths]; exact WFAll_WidthsAll vs h.1
    | .described d v, h => by simp only [Widths]; exact ⟨WF_Widths d h.2.1, WF_Widths v h.2.2⟩
  theorem WFAll_WidthsAll : ∀ (vs : List Value), WFAll vs → WidthsAll vs
    | [], _ => by simp [WidthsAll]
    | v :: vs, h => by simp only [WidthsAll]; exact ⟨WF_Widths v h.1, WFAll_WidthsAll vs h.2⟩
end

/-! ### decidable renderings of `WF` and `TVOk` (used for the non-vacuity examples) -/

def sameSimpleB : List Value → Bool
  | [] => true
  | [v] => (elemCode v).isSome
  | v :: w :: vs => (elemCode v).isSome && elemCode v == elemCode w && sameSimpleB (w :: vs)

theorem sameSimpleB_sound : ∀ (vs : List Value), sameSimpleB vs = true → SameSimple vs
  | [], _ => by simp [SameSimple]
  | [v], h => by simpa [SameSimple, sameSimpleB] using h
  | v :: w :: vs, h => by
    simp only [sameSimpleB, Bool.and_eq_true, beq_iff_eq] at h
    simp only [SameSimple]
    exact ⟨h.1.1, h.1.2, sameSimpleB_sound (w :: vs) h.2⟩

def isDescriptorValue : Value → Bool
  | .var .symbol _ => true
  | .fixed .ulong _ => true
  | _ => false

mutual
  def wfB : Value → Bool
    | .null => true
    | .bool _ => true
    | .fixed k bs => bs.length == k.width && (k != .char || validChar bs)
    | .var k bs => (k == .binary || validUtf8 bs) && decide (bs.length < 4294967296)
    | .list vs => wfAllB vs && decide (vs.length ≤ MAX_ARRAY_COUNT)
    | .map kvs => wfAllB kvs && kvs.length % 2 == 0 && decide (kvs.length ≤ MAX_ARRAY_COUNT) &&
        Value.beqList (flattenPairs (insertAll [] kvs)) kvs
    | .array vs => wfAllB vs && decide (vs.length ≤ MAX_ARRAY_COUNT) && sameSimpleB vs
    | .described d v => isDescriptorValue d && wfB d && wfB v
  def wfAllB : List Value → Bool
    | [] => true
    | v :: vs => wfB v && wfAllB vs
end

mutual
  theorem wfB_sound : ∀ (v : Value), wfB v = true → WF v
    | .null, _ => by simp [WF]
    | .bool _, _ => by simp [WF]
    | .fixed k bs, h => by
      simp only [wfB, Bool.and_eq_true, beq_iff_eq, Bool.or_eq_true, bne_iff_ne, ne_eq] at h
      refine ⟨h.1, fun hk => ?_⟩
      rcases h.2 with h2 | h2
      · exact absurd hk h2
      · exact h2
    | .var k bs, h => by
      simp only [wfB, Bool.and_eq_true, Bool.or_eq_true, beq_iff_eq, decide_eq_true_eq] at h
      refine ⟨fun hk => ?_, h.2⟩
      rcases h.1 with h1 | h1
      · exact absurd h1 hk
      · exact h1
    | .list vs, h => by
      simp only [wfB, Bool.and_eq_true, decide_eq_true_eq] at h
      exact ⟨wfAllB_sound vs h.1, h.2⟩
    | .map kvs, h => by
      simp only [wfB, Bool.and_eq_true, decide_eq_true_eq, beq_iff_eq] at h
      exact ⟨wfAllB_sound kvs h.1.1.1, h.1.1.2, h.1.2, beqList_eq _ _ h.2⟩
    | .array vs, h => by
      simp only [wfB, Bool.and_eq_true, decide_eq_true_eq] at h
      exact ⟨wfAllB_sound vs h.1.1, h.1.2, sameSimpleB_sound vs h.2⟩
    | .described d v, h => by
      simp only [wfB, Bool.and_eq_true] at h
      refine ⟨?_, wfB_sound d h.1.2, wfB_sound v h.2⟩
      have hd := h.1.1
      unfold isDescriptorValue at hd
      split at hd
      · exact Or.inl ⟨_, rfl⟩
      · exact Or.inr ⟨_, rfl⟩
      · cases hd
  theorem wfAllB_sound : ∀ (vs : List Value), wfAllB vs = true → WFAll vs
    | [], _ => by simp [WFAll]
    | v :: vs, h => by
      simp only [wfAllB, Bool.and_eq_true] at h
      exact ⟨wfB_sound v h.1, wfAllB_sound vs h.2⟩
end

def isLeafEmptyArray : TV → Bool
  | .leaf (.array []) => true
  | _ => false

def isAbsent : TV → Bool
  | .absent => true
  | _ => false

def isLeaf : TV → Bool
  | .leaf _ => true
  | _ => false

mutual
  def tvOkB (env : List Schema) : FTy → TV → Bool
    | _, .absent => false
    | ty, .leaf v =>
      (match ty with
       | .prim p => (match accepts p v with | some w => Value.beq w v | none => false) && wfB v
       | .comp _ => false)
    | ty, .comp n fs =>
      (match ty with
       | .prim _ => false
       | .comp names => names.contains n &&
          (match lookup env n with
           | none => false
           | some s => fieldsOkB env s.fields fs))
  def fieldsOkB (env : List Schema) : List Field → List TV → Bool
    | [], [] => true
    | f :: fs, t :: ts =>
      (match f.kind with
       | .required => tvOkB env f.ty t
       | .optional => isAbsent t || tvOkB env f.ty t
       | .dflt => isLeaf t && tvOkB env f.ty t
       | .multiple => isAbsent t || (tvOkB env f.ty t && !isLeafEmptyArray t)) && fieldsOkB env fs ts
    | _, _ => false
end

mutual
  theorem tvOkB_sound (env : List Schema) : ∀ (tv : TV) (ty : FTy), tvOkB env ty tv = true → TVOk env ty tv
    | .absent, _, h => by simp [tvOkB] at h
    | .leaf v, ty, h => by
      cases ty with
      | comp names => simp [tvOkB] at h
      | prim p =>
        simp only [tvOkB, Bool.and_eq_true] at h
        refine ⟨p, rfl, ?_, wfB_sound v h.2⟩
        cases ha : accepts p v with
        | none => simp [ha] at h
        | some w =>
          simp only [ha] at h
          rw [beq_eq _ _ h.1]
    | .comp n fs, ty, h => by
      cases ty with
      | prim p => simp [tvOkB] at h
      | comp names =>
        simp only [tvOkB, Bool.and_eq_true] at h
        refine ⟨names, rfl, h.1, ?_⟩
        cases hl : lookup env n with
        | none => simp [hl] at h
        | some s =>
          simp only [hl] at h ⊢
          exact fieldsOkB_sound env fs s.fields h.2
  theorem fieldsOkB_sound (env : List Schema) : ∀ (ts : List TV) (fs : List Field),
      fieldsOkB env fs ts = true → FieldsOk env fs ts
    | [], [], _ => by simp [FieldsOk]
    | [], _ :: _, h => by simp [fieldsOkB] at h
    | _ :: _, [], h => by simp [fieldsOkB] at h
    | t :: ts, f :: fs, h => by
      simp only [fieldsOkB, Bool.and_eq_true] at h
      refine ⟨?_, fieldsOkB_sound env ts fs h.2⟩
      have h1 := h.1
      unfold FieldOk1
      cases hk : f.kind with
      | required => simp only [hk] at h1 ⊢; exact tvOkB_sound env t f.ty h1
      | optional =>
        simp only [hk, Bool.or_eq_true] at h1 ⊢
        rcases h1 with h1 | h1
        · left; cases t <;> simp [isAbsent] at h1 ⊢
        · right; exact tvOkB_sound env t f.ty h1
      | dflt =>
        simp only [hk, Bool.and_eq_true] at h1 ⊢
        refine ⟨?_, tvOkB_sound env t f.ty h1.2⟩
        cases t <;> simp [isLeaf] at h1 ⊢
      | multiple =>
        simp only [hk, Bool.or_eq_true, Bool.and_eq_true, Bool.not_eq_true'] at h1 ⊢
        rcases h1 with h1 | h1
        · left; cases t <;> simp [isAbsent] at h1 ⊢
        · right
          refine ⟨tvOkB_sound env t f.ty h1.1, fun he => ?_⟩
          rw [he] at h1
          simp [isLeafEmptyArray] at h1
end

end Amqp.Typed
