import Theorems.Lemmas.Settle
import Theorems.Lemmas.U32

namespace Amqp.Settle
open Amqp

/-- the delivery-ids a disposition `first..last` names, in order -/
def expand (r : Nat × Nat) : List Nat := (List.range (wsub32 r.2 r.1 + 1)).map (fun o => wadd32 r.1 o)

/-- ids named by a list of runs kept most-recent-first -/
def expandRuns (runs : List (Nat × Nat)) : List Nat := (runs.reverse.map expand).flatten

theorem expandRuns_nil : expandRuns [] = [] := rfl

theorem expandRuns_cons (r : Nat × Nat) (runs : List (Nat × Nat)) :
    expandRuns (r :: runs) = expandRuns runs ++ expand r := by
  simp [expandRuns]

theorem expand_single (id : Nat) (h : id < 4294967296) : expand (id, id) = [id] := by
  have h0 : wsub32 id id = 0 := by rw [wsub32_spec]; omega
  have h1 : wadd32 id 0 = id := by unfold wadd32; omega
  simp [expand, h0, h1]

theorem expand_length (r : Nat × Nat) : (expand r).length = wsub32 r.2 r.1 + 1 := by
  simp [expand]

/-- extending a run by the next id in serial order names one more delivery -/
theorem expand_succ (f l : Nat) (hf : f < 4294967296) (hl : l < 4294967296)
    (hlen : wsub32 l f + 1 < 4294967296) :
    expand (f, wadd32 l 1) = expand (f, l) ++ [wadd32 l 1] := by
  have h1 : wsub32 (wadd32 l 1) f = wsub32 l f + 1 := by
    have := sdist_succ f l hf hl (by simpa [sdist] using hlen)
    simpa [sdist] using this
  have h2 : wadd32 f (wsub32 l f + 1) = wadd32 l 1 := by
    simp only [wsub32_spec, wadd32] at *; omega
  simp only [expand, h1]
  rw [List.range_succ, List.map_append, List.map_singleton, h2]

/-- all runs are made of u32 values -/
def RunsOk (runs : List (Nat × Nat)) : Prop := ∀ r ∈ runs, r.1 < 4294967296 ∧ r.2 < 4294967296

theorem runsOk_pushRun (runs : List (Nat × Nat)) (id : Nat) (h : RunsOk runs) (hid : id < 4294967296) :
    RunsOk (pushRun runs id) := by
  unfold pushRun
  cases runs with
  | nil => intro r hr; simp at hr; subst hr; exact ⟨hid, hid⟩
  | cons r rest =>
    obtain ⟨f, l⟩ := r
    simp only
    split
    · intro x hx
      rcases List.mem_cons.mp hx with rfl | hx
      · exact ⟨(h (f, l) (by simp)).1, hid⟩
      · exact h x (List.mem_cons_of_mem _ hx)
    · intro x hx
      rcases List.mem_cons.mp hx with rfl | hx
      · exact ⟨hid, hid⟩
      · exact h x hx

/-- **pushRun is exact**: the runs name one more delivery, the new id, and nothing else -/
theorem expandRuns_pushRun (runs : List (Nat × Nat)) (id : Nat) (h : RunsOk runs) (hid : id < 4294967296)
    (hlen : (expandRuns runs).length + 1 < 4294967296) :
    expandRuns (pushRun runs id) = expandRuns runs ++ [id] := by
  unfold pushRun
  cases runs with
  | nil => simp [expandRuns_cons, expandRuns_nil, expand_single id hid]
  | cons r rest =>
    obtain ⟨f, l⟩ := r
    obtain ⟨hf, hl⟩ := h (f, l) (by simp)
    simp only
    split
    · rename_i heq
      have hl' : wsub32 l f + 1 < 4294967296 := by
        have : (expand (f, l)).length ≤ (expandRuns ((f, l) :: rest)).length := by
          rw [expandRuns_cons]; simp
        rw [expand_length] at this
        simp only at this
        omega
      rw [expandRuns_cons, expandRuns_cons, heq, expand_succ f l hf hl hl', List.append_assoc]
    · rw [expandRuns_cons, expand_single id hid]

end Amqp.Settle

namespace Amqp.Settle

/-- does the sender answer an unsettled disposition with state `st` for delivery `id` with a
    settling one?  (the link is in rcv-settle-mode second and the state is not "in progress") -/
def wantsEcho (st : DS) (s : St) (id : Nat) : Bool :=
  match lookup s.byId id with
  | some e => isSecond s e.link && !st.inProgress
  | none => false

/-- the ids echoed by `updateIds`, following the evolving state -/
def echoedIds (st : DS) : List Nat → St → List Nat
  | [], _ => []
  | id :: ids, s =>
    match lookup s.byId id with
    | none => echoedIds st ids s
    | some e =>
      if (updOne st s id e).2.2 then id :: echoedIds st ids (updOne st s id e).1
      else echoedIds st ids (updOne st s id e).1

theorem echoedIds_length_le (st : DS) : ∀ (ids : List Nat) (s : St), (echoedIds st ids s).length ≤ ids.length := by
  intro ids
  induction ids with
  | nil => intro s; simp [echoedIds]
  | cons id ids ih =>
    intro s
    unfold echoedIds
    cases h : lookup s.byId id with
    | none => simp only; have := ih s; simp; omega
    | some e =>
      simp only
      split
      · have := ih (updOne st s id e).1; simp; omega
      · have := ih (updOne st s id e).1; simp; omega

/-- the runs collected by `updateIds` name exactly the echoed ids, in order -/
theorem updateIds_runs (st : DS) : ∀ (ids : List Nat) (s : St) (runs : List (Nat × Nat)),
    RunsOk runs → (∀ id ∈ ids, id < 4294967296) → (expandRuns runs).length + ids.length < 4294967296 →
    RunsOk (updateIds st ids s runs).2.2 ∧
    expandRuns (updateIds st ids s runs).2.2 = expandRuns runs ++ echoedIds st ids s := by
  intro ids
  induction ids with
  | nil => intro s runs h _ _; simp [updateIds_nil, echoedIds, h]
  | cons id ids ih =>
    intro s runs hok hlt hlen
    have hid : id < 4294967296 := hlt id (by simp)
    have hlt' : ∀ x ∈ ids, x < 4294967296 := fun x hx => hlt x (List.mem_cons_of_mem _ hx)
    simp only [List.length_cons] at hlen
    cases h : lookup s.byId id with
    | none =>
      rw [updateIds_cons_none st id ids s runs h]
      have := ih s runs hok hlt' (by omega)
      simpa [echoedIds, h] using this
    | some e =>
      rw [updateIds_cons_some st id ids s runs e h]
      simp only
      by_cases hecho : (updOne st s id e).2.2 = true
      · simp only [hecho, if_true]
        have hpush := expandRuns_pushRun runs id hok hid (by omega)
        have := ih (updOne st s id e).1 (pushRun runs id) (runsOk_pushRun runs id hok hid) hlt'
          (by rw [hpush]; simp; omega)
        refine ⟨this.1, ?_⟩
        rw [this.2, hpush]
        simp [echoedIds, h, hecho]
      · simp only [hecho, if_false, Bool.false_eq_true]
        have := ih (updOne st s id e).1 runs hok hlt' (by omega)
        refine ⟨this.1, ?_⟩
        rw [this.2]
        simp [echoedIds, h, hecho]

theorem isSecond_updOne (st : DS) (s : St) (id : Nat) (e : Entry) (l : Nat) :
    isSecond (updOne st s id e).1 l = isSecond s l := by
  unfold isSecond; rw [(updOne_sub st s id e).2.2]

theorem lookup_updOne_ne (st : DS) (s : St) (id : Nat) (e : Entry) (id' : Nat) (h : id' ≠ id) :
    lookup (updOne st s id e).1.byId id' = lookup s.byId id' := by
  rw [updOne_byId]
  split
  · exact lookup_removeId_ne _ _ _ h
  · rfl

theorem wantsEcho_updOne_ne (st : DS) (s : St) (id : Nat) (e : Entry) (id' : Nat) (h : id' ≠ id) :
    wantsEcho st (updOne st s id e).1 id' = wantsEcho st s id' := by
  unfold wantsEcho
  rw [lookup_updOne_ne st s id e id' h]
  cases lookup s.byId id' with
  | none => rfl
  | some e' => simp only [isSecond_updOne]

/-- with distinct ids the evolving state answers like the initial one -/
theorem echoedIds_eq_filter (st : DS) : ∀ (ids : List Nat) (s : St), ids.Nodup →
    echoedIds st ids s = ids.filter (wantsEcho st s) := by
  intro ids
  induction ids with
  | nil => intro s _; rfl
  | cons id ids ih =>
    intro s hnd
    obtain ⟨hnot, hnd'⟩ := List.nodup_cons.mp hnd
    have hrest : ∀ (e : Entry), ids.filter (wantsEcho st (updOne st s id e).1) = ids.filter (wantsEcho st s) := by
      intro e
      apply List.filter_congr
      intro x hx
      exact wantsEcho_updOne_ne st s id e x (fun heq => hnot (heq ▸ hx))
    unfold echoedIds
    cases h : lookup s.byId id with
    | none =>
      simp only
      rw [ih s hnd', List.filter_cons]
      simp [wantsEcho, h]
    | some e =>
      simp only
      have hw : wantsEcho st s id = (updOne st s id e).2.2 := by
        simp [wantsEcho, h, updOne_echo]
      rw [List.filter_cons, hw]
      split
      · rw [ih _ hnd', hrest e]
      · rw [ih _ hnd', hrest e]

end Amqp.Settle

namespace Amqp.Settle

theorem tagsInj_updOne (st : DS) (s : St) (id : Nat) (e : Entry) (h : TagsInj s.byId) :
    TagsInj (updOne st s id e).1.byId := by
  intro a ha b hb h1 h2
  exact h a ((updOne_sub st s id e).1 a ha) b ((updOne_sub st s id e).1 b hb) h1 h2

/-- **liveness** (unsettled disposition with a terminal state) -/
theorem updateIds_live (st : DS) (ht : st.terminal = true) : ∀ (ids : List Nat) (s : St) (runs : List (Nat × Nat))
    (id : Nat) (e : Entry),
    TagsInj s.byId → id ∈ ids → lookup s.byId id = some e → (e.link, e.tag) ∈ s.unsettled →
    Out.resolved e.link e.tag st ∈ (updateIds st ids s runs).2.1 := by
  intro ids
  induction ids with
  | nil => intro s runs id e _ h; simp at h
  | cons x xs ih =>
    intro s runs id e hinj hid hl hheld
    by_cases hxe : x = id
    · subst hxe
      rw [updateIds_cons_some st x xs s runs e hl]
      simp only [List.mem_append]
      left
      rcases updOne_out st s x e with ⟨_, hcase, _⟩ | ⟨h0, _⟩
      · rcases hcase with hc | hc
        · rw [ht] at hc; cases hc
        · exact absurd hheld hc
      · rw [h0]; simp
    · have hx : id ∈ xs := by
        rcases List.mem_cons.mp hid with h | h
        · exact absurd h.symm hxe
        · exact h
      cases h : lookup s.byId x with
      | none => rw [updateIds_cons_none st x xs s runs h]; exact ih s runs id e hinj hx hl hheld
      | some e' =>
        rw [updateIds_cons_some st x xs s runs e' h]
        simp only [List.mem_append]
        right
        have hl' : lookup (updOne st s x e').1.byId id = some e := by
          rw [lookup_updOne_ne st s x e' id (Ne.symm hxe)]; exact hl
        have hm := lookup_some_mem _ _ _ hl
        have hm' := lookup_some_mem _ _ _ h
        have hne : (e.link, e.tag) ≠ (e'.link, e'.tag) := by
          intro heq
          simp only [Prod.mk.injEq] at heq
          have := hinj e hm.1 e' hm'.1 heq.1 heq.2
          rw [this] at hm
          exact hxe (hm'.2.symm.trans hm.2)
        refine ih _ _ id e (tagsInj_updOne st s x e' hinj) hx hl' ?_
        rcases updOne_out st s x e' with ⟨_, _, hu⟩ | ⟨_, _, _, hu⟩
        · exact (hu _).mpr hheld
        · exact (hu _).mpr ⟨hheld, hne⟩

/-- after a terminal report the link no longer holds the delivery -/
theorem updateIds_unheld (st : DS) (ht : st.terminal = true) : ∀ (ids : List Nat) (s : St) (runs : List (Nat × Nat))
    (id : Nat) (e : Entry), id ∈ ids → lookup s.byId id = some e →
    (e.link, e.tag) ∉ (updateIds st ids s runs).1.unsettled := by
  intro ids
  induction ids with
  | nil => intro s runs id e h; simp at h
  | cons x xs ih =>
    intro s runs id e hid hl
    by_cases hxe : x = id
    · subst hxe
      rw [updateIds_cons_some st x xs s runs e hl]
      intro hin
      have h1 := (updateIds_sub st xs _ _).2.1 _ hin
      rcases updOne_out st s x e with ⟨_, hcase, hu⟩ | ⟨_, _, _, hu⟩
      · rcases hcase with hc | hc
        · rw [ht] at hc; cases hc
        · exact hc ((hu _).mp h1)
      · exact ((hu _).mp h1).2 rfl
    · have hx : id ∈ xs := by
        rcases List.mem_cons.mp hid with h | h
        · exact absurd h.symm hxe
        · exact h
      cases h : lookup s.byId x with
      | none => rw [updateIds_cons_none st x xs s runs h]; exact ih s runs id e hx hl
      | some e' =>
        rw [updateIds_cons_some st x xs s runs e' h]
        have hl' : lookup (updOne st s x e').1.byId id = some e := by
          rw [lookup_updOne_ne st s x e' id (Ne.symm hxe)]; exact hl
        exact ih _ _ id e hx hl'

/-- an echoed delivery is forgotten by the session -/
theorem updateIds_echo_gone (st : DS) : ∀ (ids : List Nat) (s : St) (runs : List (Nat × Nat)) (id : Nat),
    ids.Nodup → id ∈ ids → wantsEcho st s id = true → lookup (updateIds st ids s runs).1.byId id = none := by
  intro ids
  induction ids with
  | nil => intro s runs id _ h; simp at h
  | cons x xs ih =>
    intro s runs id hnd hid hw
    obtain ⟨hnot, hnd'⟩ := List.nodup_cons.mp hnd
    have stays : ∀ (s' : St) (r : List (Nat × Nat)), lookup s'.byId id = none →
        lookup (updateIds st xs s' r).1.byId id = none := by
      intro s' r hn
      cases hl : lookup (updateIds st xs s' r).1.byId id with
      | none => rfl
      | some e =>
        have hm := lookup_some_mem _ _ _ hl
        have := (updateIds_sub st xs s' r).1 e hm.1
        unfold lookup at hn
        have := List.find?_eq_none.mp hn e this
        simp [hm.2] at this
    by_cases hxe : x = id
    · subst hxe
      cases h : lookup s.byId x with
      | none => simp [wantsEcho, h] at hw
      | some e =>
        rw [updateIds_cons_some st x xs s runs e h]
        apply stays
        have he : (updOne st s x e).2.2 = true := by
          rw [updOne_echo]; simpa [wantsEcho, h] using hw
        rw [updOne_byId, he]
        exact lookup_removeId_self _ _
    · have hx : id ∈ xs := by
        rcases List.mem_cons.mp hid with h | h
        · exact absurd h.symm hxe
        · exact h
      cases h : lookup s.byId x with
      | none => rw [updateIds_cons_none st x xs s runs h]; exact ih s runs id hnd' hx hw
      | some e' =>
        rw [updateIds_cons_some st x xs s runs e' h]
        exact ih _ _ id hnd' hx (by rw [wantsEcho_updOne_ne st s x e' id (Ne.symm hxe)]; exact hw)

end Amqp.Settle
