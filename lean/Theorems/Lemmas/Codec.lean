import Amqp.Codec

namespace Amqp.Codec
open Amqp.Gen.Codes

theorem be32_length (n : Nat) : (be32 n).length = 4 := rfl

theorem smallForm_fixed_len (k : FixedKind) (bs s : Bytes) (h : smallForm k bs = some s) :
    s.length ≤ 1 + k.width := by
  unfold smallForm at h
  split at h <;> (try split at h) <;> (try split at h) <;> simp at h <;> subst h <;> simp [FixedKind.width]

theorem encFixed_length (ctx : Ctx) (k : FixedKind) (bs : Bytes) (hw : bs.length = k.width) :
    (encFixed ctx k bs).length = sizeFixed ctx k bs := by
  unfold encFixed sizeFixed
  cases ctx <;> simp only []
  · split <;> simp [hw]; omega
  · simp [hw]; omega
  · simp [hw]

theorem encVar_length (ctx : Ctx) (k : VarKind) (bs : Bytes) :
    (encVar ctx k bs).map List.length = sizeVar ctx bs.length := by
  unfold encVar sizeVar
  cases ctx <;> simp only []
  · split
    · simp; omega
    · split <;> simp [be32_length] <;> omega
  · simp [be32_length]; try omega
  · simp [be32_length]; try omega

theorem writeList_length (ctx : Ctx) (n : Nat) (buf : Bytes) :
    (writeList ctx n buf).map List.length = sizeList ctx buf.length := by
  unfold writeList sizeList
  split
  · simp
  · split
    · cases ctx <;> simp [Ctx.writesCode] <;> omega
    · split
      · cases ctx <;> simp [Ctx.writesCode, be32_length] <;> omega
      · simp

theorem writeMap_length (ctx : Ctx) (n : Nat) (buf : Bytes) :
    (writeMap ctx n buf).map List.length = sizeMapArr ctx buf.length := by
  unfold writeMap sizeMapArr
  split
  · cases ctx <;> simp [Ctx.writesCode] <;> omega
  · split
    · cases ctx <;> simp [Ctx.writesCode, be32_length] <;> omega
    · simp

theorem writeArray_length (ctx : Ctx) (n : Nat) (buf : Bytes) :
    (writeArray ctx n buf).map List.length = sizeMapArr ctx buf.length := by
  unfold writeArray sizeMapArr
  split
  · cases ctx <;> simp [Ctx.writesCode] <;> omega
  · split
    · cases ctx <;> simp [Ctx.writesCode, be32_length] <;> omega
    · simp

-- values whose fixed-width scalars have the width of their kind (always true of
-- values built from Rust's typed `Value`)
mutual
  def Widths : Value → Prop
    | .fixed k bs => bs.length = k.width
    | .list vs => WidthsAll vs
    | .map vs => WidthsAll vs
    | .array vs => WidthsAll vs
    | .described d v => Widths d ∧ Widths v
    | _ => True
  def WidthsAll : List Value → Prop
    | [] => True
    | v :: vs => Widths v ∧ WidthsAll vs
end

end Amqp.Codec

namespace Amqp.Codec
open Amqp.Gen.Codes

theorem encBool_length (ctx : Ctx) (b : Bool) :
    (encBool ctx b).length = (match ctx with | .none => 1 | .first => 2 | .other => 1) := by
  cases ctx <;> rfl

mutual
  theorem size_enc (ctx : Ctx) : ∀ (v : Value), Widths v → size ctx v = (enc ctx v).map List.length
    | .null, _ => by simp [size, enc]
    | .bool b, _ => by cases ctx <;> simp [size, enc, encBool]
    | .fixed k bs, h => by
      have hw : bs.length = k.width := h
      simp [size, enc, encFixed_length ctx k bs hw]
    | .var k bs, _ => by simp [size, enc, encVar_length]
    | .list vs, h => by
      have ih := sizeAll_encAll vs h
      simp only [size, enc, ih]
      cases hb : encAll vs with
      | none => simp
      | some buf => simp [writeList_length]
    | .map vs, h => by
      have ih := sizeAll_encAll vs h
      simp only [size, enc, ih]
      cases hb : encAll vs with
      | none => simp
      | some buf => simp [writeMap_length]
    | .array vs, h => by
      have ih := sizeElems_encElems true vs h
      simp only [size, enc, ih]
      cases hb : encElems true vs with
      | none => simp
      | some buf => simp [writeArray_length]
    | .described d v, h => by
      have h' : Widths d ∧ Widths v := h
      have i1 := size_enc ctx d h'.1
      have i2 := size_enc ctx v h'.2
      simp only [size, enc, i1, i2]
      cases enc ctx d <;> cases enc ctx v <;> simp <;> omega
  theorem sizeAll_encAll : ∀ (vs : List Value), WidthsAll vs → sizeAll vs = (encAll vs).map List.length
    | [], _ => by simp [sizeAll, encAll]
    | v :: vs, h => by
      have h' : Widths v ∧ WidthsAll vs := h
      have i1 := size_enc .none v h'.1
      have i2 := sizeAll_encAll vs h'.2
      simp only [sizeAll, encAll, i1, i2]
      cases enc .none v <;> cases encAll vs <;> simp
  theorem sizeElems_encElems (f : Bool) : ∀ (vs : List Value), WidthsAll vs →
      sizeElems f vs = (encElems f vs).map List.length
    | [], _ => by simp [sizeElems, encElems]
    | v :: vs, h => by
      have h' : Widths v ∧ WidthsAll vs := h
      have i1 := size_enc (if f then .first else .other) v h'.1
      have i2 := sizeElems_encElems false vs h'.2
      simp only [sizeElems, encElems, i1, i2]
      cases enc (if f then Ctx.first else Ctx.other) v <;> cases encElems false vs <;> simp
end

end Amqp.Codec

namespace Amqp.Codec
open Amqp.Gen.Codes

/-! ## basic byte lemmas -/

theorem b8_toNat (n : Nat) (h : n < 256) : (b8 n).toNat = n := by
  simp [b8, UInt8.toNat_ofNat', Nat.mod_eq_of_lt h]

theorem fromBe_be32 (n : Nat) (h : n < 4294967296) : fromBe (be32 n) = n := by
  simp only [be32, fromBe, List.length_cons, List.length_nil]
  rw [b8_toNat _ (Nat.mod_lt _ (by decide)), b8_toNat _ (Nat.mod_lt _ (by decide)),
    b8_toNat _ (Nat.mod_lt _ (by decide)), b8_toNat _ (Nat.mod_lt _ (by decide))]
  omega

theorem take?_append (n : Nat) (a b : Bytes) (h : a.length = n) : take? n (a ++ b) = .ok (a, b) := by
  unfold take?
  have : ¬ (a ++ b).length < n := by simp [List.length_append, h]
  simp [this, ← h]

theorem next?_cons (b : UInt8) (r : Bytes) : next? (b :: r) = .ok (b, r) := rfl

end Amqp.Codec

namespace Amqp.Codec
open Amqp.Gen.Codes

/-- codes of compound values and of the described-type marker -/
def isCompoundCode (c : Nat) : Bool :=
  c = cDescribedType || c = cList0 || c = cList8 || c = cList32 || c = cMap8 || c = cMap32 ||
  c = cArray8 || c = cArray32

/-- one step of `dec` on a scalar constructor read from the input -/
theorem dec_scalar (fuel depth c : Nat) (r : Bytes) (zw : Nat) (v : Value) (tail : Bytes)
    (hlt : c < 256) (hc : isCode c = true) (hn : isCompoundCode c = false)
    (hs : decScalar c r = some (.ok (v, tail))) :
    dec (fuel + 1) depth ⟨b8 c :: r, none, zw⟩ = .ok (v, ⟨tail, none, zw⟩) := by
  simp only [isCompoundCode, Bool.or_eq_false_iff, decide_eq_false_iff_not] at hn
  obtain ⟨⟨⟨⟨⟨⟨⟨h1, h2⟩, h3⟩, h4⟩, h5⟩, h6⟩, h7⟩, h8⟩ := hn
  simp only [dec, codeOrPeek, codeOrRead, b8_toNat c hlt, hc, if_true, h1, h2, h3, h4, h5, h6, h7, h8,
    if_false, false_or, hs, bind, Except.bind, pure, Except.pure]

/-- one step of `dec` on an array element whose constructor was given once for the array -/
theorem dec_elem (fuel depth c : Nat) (r : Bytes) (zw : Nat) (v : Value) (tail : Bytes)
    (hn : isCompoundCode c = false)
    (hs : decScalar c r = some (.ok (v, tail))) :
    dec (fuel + 1) depth ⟨r, some c, zw⟩ = .ok (v, ⟨tail, some c, zw⟩) := by
  simp only [isCompoundCode, Bool.or_eq_false_iff, decide_eq_false_iff_not] at hn
  obtain ⟨⟨⟨⟨⟨⟨⟨h1, h2⟩, h3⟩, h4⟩, h5⟩, h6⟩, h7⟩, h8⟩ := hn
  simp only [dec, codeOrPeek, codeOrRead, h1, h2, h3, h4, h5, h6, h7, h8,
    if_false, false_or, hs, bind, Except.bind, pure, Except.pure]

end Amqp.Codec

namespace Amqp.Codec
open Amqp.Gen.Codes

theorem decScalar_fixed (k : FixedKind) (bs tail : Bytes) (hw : bs.length = k.width)
    (hch : k = .char → validChar bs = true) :
    decScalar k.code (bs ++ tail) = some (.ok (.fixed k bs, tail)) := by
  have ht : take? k.width (bs ++ tail) = .ok (bs, tail) := take?_append _ _ _ hw
  cases k <;>
    simp [decScalar, FixedKind.code, kindOfCode, cNull, cBooleanTrue, cBooleanFalse, cBoolean, cUint0, cUlong0,
      cSmallUint, cSmallUlong, cSmallInt, cSmallLong, cUbyte, cUshort, cUint, cUlong, cByte, cShort, cInt,
      cLong, cFloat, cDouble, cDecimal32, cDecimal64, cDecimal128, cChar, cTimestamp, cUuid, ht,
      bind, Except.bind, pure, Except.pure]
  -- char: the validity check
  simp [hch rfl]

theorem fixed_codes (k : FixedKind) :
    k.code < 256 ∧ isCode k.code = true ∧ isCompoundCode k.code = false := by
  cases k <;> decide

end Amqp.Codec

namespace Amqp.Codec
open Amqp.Gen.Codes

/-- the compact forms decode back to the full-width value -/
theorem smallForm_dec (k : FixedKind) (bs s tail : Bytes) (h : smallForm k bs = some s) :
    ∃ c r, s = b8 c :: r ∧ c < 256 ∧ isCode c = true ∧ isCompoundCode c = false ∧
      decScalar c (r ++ tail) = some (.ok (.fixed k bs, tail)) := by
  unfold smallForm at h
  split at h
  · -- uint
    rename_i a b c d
    split at h
    · rename_i hz
      obtain ⟨ha, hb, hc⟩ := hz
      subst ha hb hc
      split at h
      · rename_i hd; subst hd
        simp at h; subst h
        exact ⟨cUint0, [], rfl, by decide, by decide, by decide, by
          simp [decScalar, cUint0, cNull, cBooleanTrue, cBooleanFalse, cBoolean]⟩
      · simp at h; subst h
        exact ⟨cSmallUint, [d], rfl, by decide, by decide, by decide, by
          simp [decScalar, cSmallUint, cUint0, cUlong0, cNull, cBooleanTrue, cBooleanFalse, cBoolean,
            next?, bind, Except.bind, pure, Except.pure]⟩
    · simp at h
  · -- ulong
    rename_i a b c d e f g hh
    split at h
    · rename_i hz
      obtain ⟨h1, h2, h3, h4, h5, h6, h7⟩ := hz
      subst h1 h2 h3 h4 h5 h6 h7
      split at h
      · rename_i hd; subst hd
        simp at h; subst h
        exact ⟨cUlong0, [], rfl, by decide, by decide, by decide, by
          simp [decScalar, cUlong0, cUint0, cNull, cBooleanTrue, cBooleanFalse, cBoolean]⟩
      · simp at h; subst h
        exact ⟨cSmallUlong, [hh], rfl, by decide, by decide, by decide, by
          simp [decScalar, cSmallUlong, cSmallUint, cUint0, cUlong0, cNull, cBooleanTrue, cBooleanFalse,
            cBoolean, next?, bind, Except.bind, pure, Except.pure]⟩
    · simp at h
  · -- int
    rename_i a b c d
    split at h
    · rename_i hz
      obtain ⟨h1, h2, h3⟩ := hz
      subst h1 h2 h3
      simp at h; subst h
      exact ⟨cSmallInt, [d], rfl, by decide, by decide, by decide, by
        simp [decScalar, cSmallInt, cSmallUlong, cSmallUint, cUint0, cUlong0, cNull, cBooleanTrue,
          cBooleanFalse, cBoolean, next?, bind, Except.bind, pure, Except.pure]⟩
    · simp at h
  · -- long
    rename_i a b c d e f g hh
    split at h
    · rename_i hz
      obtain ⟨h1, h2, h3, h4, h5, h6, h7⟩ := hz
      subst h1 h2 h3 h4 h5 h6 h7
      simp at h; subst h
      exact ⟨cSmallLong, [hh], rfl, by decide, by decide, by decide, by
        simp [decScalar, cSmallLong, cSmallInt, cSmallUlong, cSmallUint, cUint0, cUlong0, cNull, cBooleanTrue,
          cBooleanFalse, cBoolean, next?, bind, Except.bind, pure, Except.pure]⟩
    · simp at h
  · simp at h

/-- a fixed-width scalar outside arrays round-trips -/
theorem dec_encFixed (fuel depth zw : Nat) (k : FixedKind) (bs tail : Bytes) (hw : bs.length = k.width)
    (hch : k = .char → validChar bs = true) :
    dec (fuel + 1) depth ⟨encFixed .none k bs ++ tail, none, zw⟩ = .ok (.fixed k bs, ⟨tail, none, zw⟩) := by
  unfold encFixed
  simp only []
  cases hs : smallForm k bs with
  | none =>
    obtain ⟨c1, c2, c3⟩ := fixed_codes k
    simp only [List.cons_append]
    exact dec_scalar fuel depth k.code _ zw _ tail c1 c2 c3 (decScalar_fixed k bs tail hw hch)
  | some s =>
    obtain ⟨c, r, e, c1, c2, c3, hd⟩ := smallForm_dec k bs s tail hs
    subst e
    simp only [List.cons_append]
    exact dec_scalar fuel depth c _ zw _ tail c1 c2 c3 hd

/-- a fixed-width scalar as an array element round-trips (no constructor on the element) -/
theorem dec_elem_fixed (fuel depth zw : Nat) (k : FixedKind) (bs tail : Bytes) (hw : bs.length = k.width)
    (hch : k = .char → validChar bs = true) :
    dec (fuel + 1) depth ⟨bs ++ tail, some k.code, zw⟩ = .ok (.fixed k bs, ⟨tail, some k.code, zw⟩) :=
  dec_elem fuel depth k.code _ zw _ tail (fixed_codes k).2.2 (decScalar_fixed k bs tail hw hch)

end Amqp.Codec

namespace Amqp.Codec
open Amqp.Gen.Codes

theorem dec_null (fuel depth zw : Nat) (tail : Bytes) :
    dec (fuel + 1) depth ⟨b8 cNull :: tail, none, zw⟩ = .ok (.null, ⟨tail, none, zw⟩) :=
  dec_scalar fuel depth cNull tail zw .null tail (by decide) (by decide) (by decide) (by simp [decScalar])

theorem dec_encBool (fuel depth zw : Nat) (b : Bool) (tail : Bytes) :
    dec (fuel + 1) depth ⟨encBool .none b ++ tail, none, zw⟩ = .ok (.bool b, ⟨tail, none, zw⟩) := by
  cases b
  · exact dec_scalar fuel depth cBooleanFalse tail zw _ tail (by decide) (by decide) (by decide)
      (by simp [decScalar, cBooleanFalse, cNull, cBooleanTrue])
  · exact dec_scalar fuel depth cBooleanTrue tail zw _ tail (by decide) (by decide) (by decide)
      (by simp [decScalar, cBooleanTrue, cNull])

theorem decScalar_boolean (b : Bool) (tail : Bytes) :
    decScalar cBoolean ((if b then (1 : UInt8) else 0) :: tail) = some (.ok (.bool b, tail)) := by
  cases b <;>
    simp [decScalar, cBoolean, cNull, cBooleanTrue, cBooleanFalse, next?, bind, Except.bind, pure, Except.pure]

/-- a bool as an array element (constructor 0x56 given once) -/
theorem dec_elem_bool (fuel depth zw : Nat) (b : Bool) (tail : Bytes) :
    dec (fuel + 1) depth ⟨encBool .other b ++ tail, some cBoolean, zw⟩ =
      .ok (.bool b, ⟨tail, some cBoolean, zw⟩) := by
  have := dec_elem fuel depth cBoolean ((if b then (1 : UInt8) else 0) :: tail) zw (.bool b) tail (by decide)
    (decScalar_boolean b tail)
  simpa [encBool] using this

/-! ### variable-width values -/

theorem var_codes (k : VarKind) :
    k.code8 < 256 ∧ isCode k.code8 = true ∧ isCompoundCode k.code8 = false ∧
    k.code32 < 256 ∧ isCode k.code32 = true ∧ isCompoundCode k.code32 = false := by
  cases k <;> decide

theorem decScalar_var8 (k : VarKind) (bs tail : Bytes) (hl : bs.length < 256)
    (hu : k ≠ .binary → validUtf8 bs = true) :
    decScalar k.code8 (b8 bs.length :: bs ++ tail) = some (.ok (.var k bs, tail)) := by
  have ht : take? (b8 bs.length).toNat (bs ++ tail) = .ok (bs, tail) := by
    rw [b8_toNat _ hl]; exact take?_append _ _ _ rfl
  cases k <;>
    simp [decScalar, VarKind.code8, kindOfCode, varOfCode, cNull, cBooleanTrue, cBooleanFalse, cBoolean, cUint0,
      cUlong0, cSmallUint, cSmallUlong, cSmallInt, cSmallLong, cUbyte, cUshort, cUint, cUlong, cByte, cShort,
      cInt, cLong, cFloat, cDouble, cDecimal32, cDecimal64, cDecimal128, cChar, cTimestamp, cUuid,
      cVbin8, cVbin32, cStr8, cStr32, cSym8, cSym32, next?, ht, bind, Except.bind, pure, Except.pure]
  · simp [hu (by decide)]
  · simp [hu (by decide)]

/-- stated for an abstract 4-byte length field `lb` (instantiated with `be32 n`
    through `fromBe_be32`), so that no term forces the kernel to evaluate `be32` -/
theorem decScalar_var32 (k : VarKind) (lb bs tail : Bytes) (hlb : lb.length = 4) (hfl : fromBe lb = bs.length)
    (hu : k ≠ .binary → validUtf8 bs = true) :
    decScalar k.code32 (lb ++ bs ++ tail) = some (.ok (.var k bs, tail)) := by
  have h4 : take? 4 (lb ++ (bs ++ tail)) = .ok (lb, bs ++ tail) := take?_append _ _ _ hlb
  have ht : take? (fromBe lb) (bs ++ tail) = .ok (bs, tail) := by
    rw [hfl]; exact take?_append _ _ _ rfl
  cases k <;>
    simp [decScalar, VarKind.code32, kindOfCode, varOfCode, cNull, cBooleanTrue, cBooleanFalse, cBoolean, cUint0,
      cUlong0, cSmallUint, cSmallUlong, cSmallInt, cSmallLong, cUbyte, cUshort, cUint, cUlong, cByte, cShort,
      cInt, cLong, cFloat, cDouble, cDecimal32, cDecimal64, cDecimal128, cChar, cTimestamp, cUuid,
      cVbin8, cVbin32, cStr8, cStr32, cSym8, cSym32, h4, ht, bind, Except.bind, pure, Except.pure]
  · simp [hu (by decide)]
  · simp [hu (by decide)]

end Amqp.Codec

namespace Amqp.Codec
open Amqp.Gen.Codes

theorem dec_encVar_none (fuel depth zw : Nat) (k : VarKind) (bs e tail : Bytes)
    (he : encVar .none k bs = some e) (hu : k ≠ .binary → validUtf8 bs = true) :
    dec (fuel + 1) depth ⟨e ++ tail, none, zw⟩ = .ok (.var k bs, ⟨tail, none, zw⟩) := by
  obtain ⟨a1, a2, a3, b1, b2, b3⟩ := var_codes k
  unfold encVar at he
  simp only [] at he
  split at he
  · rename_i hl
    simp at he; subst he
    have hl' : bs.length < 256 := by simp [U8_MAX_MINUS_1] at hl; omega
    simp only [List.cons_append]
    exact dec_scalar fuel depth k.code8 _ zw _ tail a1 a2 a3 (decScalar_var8 k bs tail hl' hu)
  · split at he
    · rename_i hl
      simp at he; subst he
      have hl' : bs.length < 4294967296 := by simp [U32_MAX_MINUS_4] at hl; omega
      simp only [List.cons_append, List.append_assoc]
      have := decScalar_var32 k (be32 bs.length) bs tail rfl (fromBe_be32 _ hl') hu
      simp only [List.append_assoc] at this
      exact dec_scalar fuel depth k.code32 _ zw _ tail b1 b2 b3 this
    · simp at he

theorem dec_elem_var (fuel depth zw : Nat) (k : VarKind) (bs tail : Bytes) (hl : bs.length < 4294967296)
    (hu : k ≠ .binary → validUtf8 bs = true) :
    dec (fuel + 1) depth ⟨be32 bs.length ++ bs ++ tail, some k.code32, zw⟩ =
      .ok (.var k bs, ⟨tail, some k.code32, zw⟩) :=
  dec_elem fuel depth k.code32 _ zw _ tail (var_codes k).2.2.2.2.2
    (decScalar_var32 k (be32 bs.length) bs tail rfl (fromBe_be32 _ hl) hu)

/-! ### well-formedness, cost, nesting -/

/-- the constructor shared by the elements of an array of simple values -/
def elemCode : Value → Option Nat
  | .bool _ => some cBoolean
  | .fixed k _ => some k.code
  | .var k _ => some k.code32
  | _ => none

mutual
  def WF : Value → Prop
    | .null => True
    | .bool _ => True
    | .fixed k bs => bs.length = k.width ∧ (k = .char → validChar bs = true)
    | .var k bs => (k ≠ .binary → validUtf8 bs = true) ∧ bs.length < 4294967296
    | .list vs => WFAll vs ∧ vs.length ≤ MAX_ARRAY_COUNT
    | .map kvs => WFAll kvs ∧ kvs.length % 2 = 0 ∧ kvs.length ≤ MAX_ARRAY_COUNT ∧
        flattenPairs (insertAll [] kvs) = kvs
    | .array vs => WFAll vs ∧ vs.length ≤ MAX_ARRAY_COUNT ∧ SameSimple vs
    | .described d v => ((∃ bs, d = .var .symbol bs) ∨ (∃ bs, d = .fixed .ulong bs)) ∧ WF d ∧ WF v
  def WFAll : List Value → Prop
    | [] => True
    | v :: vs => WF v ∧ WFAll vs
  /-- all elements are simple values with one common element constructor -/
  def SameSimple : List Value → Prop
    | [] => True
    | [v] => (elemCode v).isSome
    | v :: w :: vs => (elemCode v).isSome ∧ elemCode v = elemCode w ∧ SameSimple (w :: vs)
end

mutual
  def cost : Value → Nat
    | .list vs => 1 + costAll vs
    | .map vs => 1 + costAll vs
    | .array vs => 1 + costAll vs
    | .described d v => 1 + cost d + cost v
    | _ => 1
  def costAll : List Value → Nat
    | [] => 1
    | v :: vs => 1 + cost v + costAll vs
end

mutual
  def nest : Value → Nat
    | .list vs => 1 + nestAll vs
    | .map vs => 1 + nestAll vs
    | .array vs => 1 + nestAll vs
    | .described d v => 1 + max (nest d) (nest v)
    | _ => 0
  def nestAll : List Value → Nat
    | [] => 0
    | v :: vs => max (nest v) (nestAll vs)
end

end Amqp.Codec

namespace Amqp.Codec
open Amqp.Gen.Codes

/-! ### header steps of compound values -/

theorem dec_list0 (fuel depth zw : Nat) (tail : Bytes) (hd : 0 < depth) :
    dec (fuel + 1) depth ⟨b8 cList0 :: tail, none, zw⟩ = .ok (.list [], ⟨tail, none, zw⟩) := by
  have : depth ≠ 0 := by omega
  simp [dec, codeOrPeek, codeOrRead, b8_toNat, cList0, cDescribedType, isCode, discriminants, this,
    bind, Except.bind, pure, Except.pure]

theorem dec_list8 (fuel depth zw n len : Nat) (body : Bytes) (hl1 : 1 ≤ len) (hl : len < 256) (hn : n < 256)
    (hd : 0 < depth) :
    dec (fuel + 1) depth ⟨b8 cList8 :: b8 len :: b8 n :: body, none, zw⟩ =
      (do let (vs, s) ← decN fuel (depth - 1) n ⟨body, none, zw⟩; pure (.list vs, s)) := by
  have hd' : depth ≠ 0 := by omega
  have hlo : ¬ len < OFFSET_LIST8 := by simp [OFFSET_LIST8]; omega
  simp [dec, codeOrPeek, codeOrRead, b8_toNat, cList8, cList0, cList32, cDescribedType, isCode, discriminants,
    next?, hd', hlo, hl, hn, bind, Except.bind, pure, Except.pure]

theorem dec_list32 (fuel depth zw n len : Nat) (lb nb body : Bytes) (hlb : lb.length = 4) (hnb : nb.length = 4)
    (hfl : fromBe lb = len) (hfn : fromBe nb = n) (hl4 : 4 ≤ len) (hn : n ≤ MAX_ARRAY_COUNT) (hd : 0 < depth) :
    dec (fuel + 1) depth ⟨b8 cList32 :: (lb ++ (nb ++ body)), none, zw⟩ =
      (do let (vs, s) ← decN fuel (depth - 1) n ⟨body, none, zw⟩; pure (.list vs, s)) := by
  have hd' : depth ≠ 0 := by omega
  have h1 : take? 4 (lb ++ (nb ++ body)) = .ok (lb, nb ++ body) := take?_append _ _ _ hlb
  have h2 : take? 4 (nb ++ body) = .ok (nb, body) := take?_append _ _ _ hnb
  have hlo : ¬ len < OFFSET_LIST32 := by simp [OFFSET_LIST32]; omega
  have hn' : ¬ n > MAX_ARRAY_COUNT := by omega
  simp [dec, codeOrPeek, codeOrRead, b8_toNat, cList8, cList0, cList32, cDescribedType, isCode, discriminants,
    h1, h2, hfl, hfn, hd', hlo, hn', bind, Except.bind, pure, Except.pure]

theorem dec_map8 (fuel depth zw n len : Nat) (body : Bytes) (hl1 : 1 ≤ len) (hl : len < 256) (hn : n < 256)
    (he : n % 2 = 0) (hd : 0 < depth) :
    dec (fuel + 1) depth ⟨b8 cMap8 :: b8 len :: b8 n :: body, none, zw⟩ =
      (do let (vs, s) ← decN fuel (depth - 1) n ⟨body, none, zw⟩
          pure (.map (flattenPairs (insertAll [] vs)), s)) := by
  have hd' : depth ≠ 0 := by omega
  have hlo : ¬ len < OFFSET_MAP8 := by simp [OFFSET_MAP8]; omega
  simp [dec, codeOrPeek, codeOrRead, b8_toNat, cList8, cList0, cList32, cMap8, cMap32, cDescribedType, isCode,
    discriminants, next?, hd', hlo, hl, hn, he, bind, Except.bind, pure, Except.pure]

theorem dec_map32 (fuel depth zw n len : Nat) (lb nb body : Bytes) (hlb : lb.length = 4) (hnb : nb.length = 4)
    (hfl : fromBe lb = len) (hfn : fromBe nb = n) (hl4 : 4 ≤ len) (hn : n ≤ MAX_ARRAY_COUNT)
    (he : n % 2 = 0) (hd : 0 < depth) :
    dec (fuel + 1) depth ⟨b8 cMap32 :: (lb ++ (nb ++ body)), none, zw⟩ =
      (do let (vs, s) ← decN fuel (depth - 1) n ⟨body, none, zw⟩
          pure (.map (flattenPairs (insertAll [] vs)), s)) := by
  have hd' : depth ≠ 0 := by omega
  have h1 : take? 4 (lb ++ (nb ++ body)) = .ok (lb, nb ++ body) := take?_append _ _ _ hlb
  have h2 : take? 4 (nb ++ body) = .ok (nb, body) := take?_append _ _ _ hnb
  have hlo : ¬ len < OFFSET_MAP32 := by simp [OFFSET_MAP32]; omega
  have hn' : ¬ n > MAX_ARRAY_COUNT := by omega
  simp [dec, codeOrPeek, codeOrRead, b8_toNat, cList8, cList0, cList32, cMap8, cMap32, cDescribedType, isCode,
    discriminants, h1, h2, hfl, hfn, hd', hlo, hn', he, bind, Except.bind, pure, Except.pure]

end Amqp.Codec

namespace Amqp.Codec
open Amqp.Gen.Codes

theorem dec_array8_empty (fuel depth zw len : Nat) (tail : Bytes) (hl : len < 256) (hd : 0 < depth) :
    dec (fuel + 1) depth ⟨b8 cArray8 :: b8 len :: b8 0 :: tail, none, zw⟩ =
      .ok (.array [], ⟨tail, none, zw⟩) := by
  have hd' : depth ≠ 0 := by omega
  simp [dec, codeOrPeek, codeOrRead, b8_toNat, cList8, cList0, cList32, cMap8, cMap32, cArray8, cArray32,
    cDescribedType, isCode, discriminants, next?, hd', hl, MAX_ARRAY_COUNT, bind, Except.bind, pure, Except.pure]

theorem dec_array8 (fuel depth zw n len c : Nat) (body : Bytes) (hl2 : 2 ≤ len) (hl : len < 256)
    (hn0 : 0 < n) (hn : n ≤ len) (hc : c < 256) (hic : isCode c = true) (hz : zeroWidth c = false)
    (hd : 0 < depth) :
    dec (fuel + 1) depth ⟨b8 cArray8 :: b8 len :: b8 n :: b8 c :: body, none, zw⟩ =
      (do let (vs, s) ← decArr fuel (depth - 1) n ⟨body, some c, zw⟩ body.length (len - 2)
          pure (.array vs, { s with ec := none })) := by
  have hd' : depth ≠ 0 := by omega
  have hn256 : n < 256 := by omega
  have hn' : ¬ (n > MAX_ARRAY_COUNT ∨ n > len) := by simp [MAX_ARRAY_COUNT]; omega
  have hn0' : n ≠ 0 := by omega
  have hlo : ¬ len < OFFSET_ARRAY8 := by simp [OFFSET_ARRAY8]; omega
  have hA : isCode 224 = true := by decide
  simp [dec, codeOrPeek, codeOrRead, b8_toNat, cList8, cList0, cList32, cMap8, cMap32, cArray8, cArray32,
    cDescribedType, hA, hic, next?, hd', hl, hn256, hc, hn', hn0', hlo, hz, OFFSET_ARRAY8,
    bind, Except.bind, pure, Except.pure]
  intro h; omega

theorem dec_array32 (fuel depth zw n len c : Nat) (lb nb body : Bytes) (hlb : lb.length = 4)
    (hnb : nb.length = 4) (hfl : fromBe lb = len) (hfn : fromBe nb = n) (hl5 : 5 ≤ len)
    (hn0 : 0 < n) (hn : n ≤ len) (hnm : n ≤ MAX_ARRAY_COUNT) (hc : c < 256) (hic : isCode c = true)
    (hz : zeroWidth c = false) (hd : 0 < depth) :
    dec (fuel + 1) depth ⟨b8 cArray32 :: (lb ++ (nb ++ b8 c :: body)), none, zw⟩ =
      (do let (vs, s) ← decArr fuel (depth - 1) n ⟨body, some c, zw⟩ body.length (len - 5)
          pure (.array vs, { s with ec := none })) := by
  have hd' : depth ≠ 0 := by omega
  have h1 : take? 4 (lb ++ (nb ++ b8 c :: body)) = .ok (lb, nb ++ b8 c :: body) := take?_append _ _ _ hlb
  have h2 : take? 4 (nb ++ b8 c :: body) = .ok (nb, b8 c :: body) := take?_append _ _ _ hnb
  have hn' : ¬ (n > MAX_ARRAY_COUNT ∨ n > len) := by omega
  have hn0' : n ≠ 0 := by omega
  have hlo : ¬ len < OFFSET_ARRAY32 := by simp [OFFSET_ARRAY32]; omega
  have hA : isCode 240 = true := by decide
  simp [dec, codeOrPeek, codeOrRead, b8_toNat, cList8, cList0, cList32, cMap8, cMap32, cArray8, cArray32,
    cDescribedType, hA, hic, next?, h1, h2, hfl, hfn, hd', hc, hn', hn0', hlo, hz, OFFSET_ARRAY32,
    bind, Except.bind, pure, Except.pure]
  intro h; omega

end Amqp.Codec

namespace Amqp.Codec
open Amqp.Gen.Codes

def isDescriptorCode (n : Nat) : Bool :=
  n = cSym8 || n = cSym32 || n = cUlong || n = cUlong0 || n = cSmallUlong

theorem dec_described (fuel depth zw : Nat) (dcb : UInt8) (r : Bytes)
    (hdc : isDescriptorCode dcb.toNat = true) (hd : 0 < depth) :
    dec (fuel + 1) depth ⟨b8 cDescribedType :: dcb :: r, none, zw⟩ =
      (do let (d, s1) ← dec fuel (depth - 1) ⟨dcb :: r, none, zw⟩
          if s1.rest.isEmpty then .error .custom else do
          let (v, s2) ← dec fuel (depth - 1) s1
          pure (.described d v, s2)) := by
  have hd' : depth ≠ 0 := by omega
  have h0 : isCode 0 = true := by decide
  simp only [isDescriptorCode, Bool.or_eq_true, decide_eq_true_eq] at hdc
  have hcond : (dcb.toNat = cSym8 ∨ dcb.toNat = cSym32 ∨ dcb.toNat = cUlong ∨ dcb.toNat = cUlong0 ∨
      dcb.toNat = cSmallUlong) := by
    rcases hdc with (((h | h) | h) | h) | h
    · exact Or.inl h
    · exact Or.inr (Or.inl h)
    · exact Or.inr (Or.inr (Or.inl h))
    · exact Or.inr (Or.inr (Or.inr (Or.inl h)))
    · exact Or.inr (Or.inr (Or.inr (Or.inr h)))
  simp only [dec, codeOrPeek, b8_toNat cDescribedType (by decide), cDescribedType, h0, if_true, hd',
    if_false, hcond, bind, Except.bind, pure, Except.pure]
  rfl

theorem list8_of_length (bs : Bytes) (h : bs.length = 8) :
    ∃ a b c d e f g hh, bs = [a, b, c, d, e, f, g, hh] := by
  match bs, h with
  | [a, b, c, d, e, f, g, hh], _ => exact ⟨a, b, c, d, e, f, g, hh, rfl⟩

/-- the first byte of the encoding of a descriptor (symbol or ulong) -/
theorem descriptor_head (d : Value) (e : Bytes)
    (hd : (∃ bs, d = .var .symbol bs) ∨ (∃ bs, d = .fixed .ulong bs)) (hwf : WF d)
    (he : enc .none d = some e) :
    ∃ dcb r, e = dcb :: r ∧ isDescriptorCode dcb.toNat = true := by
  rcases hd with ⟨bs, rfl⟩ | ⟨bs, rfl⟩
  · simp only [enc, encVar] at he
    split at he
    · simp at he; subst he
      exact ⟨_, _, rfl, by simp [isDescriptorCode, VarKind.code8, b8_toNat, cSym8]⟩
    · split at he
      · simp at he; subst he
        exact ⟨_, _, rfl, by simp [isDescriptorCode, VarKind.code32, b8_toNat, cSym32, cSym8]⟩
      · simp at he
  · have hw : bs.length = 8 := hwf.1
    obtain ⟨a, b, c, d', e', f, g, hh, rfl⟩ := list8_of_length bs hw
    simp only [enc, encFixed, smallForm] at he
    by_cases hz : a = 0 ∧ b = 0 ∧ c = 0 ∧ d' = 0 ∧ e' = 0 ∧ f = 0 ∧ g = 0
    · by_cases hh0 : hh = 0
      · simp [hz, hh0] at he; subst he
        exact ⟨_, _, rfl, by simp [isDescriptorCode, b8_toNat, cUlong0, cUlong, cSym8, cSym32]⟩
      · simp [hz, hh0] at he; subst he
        exact ⟨_, _, rfl, by
          simp [isDescriptorCode, b8_toNat, cSmallUlong, cUlong0, cUlong, cSym8, cSym32]⟩
    · simp [hz] at he; subst he
      exact ⟨_, _, rfl, by simp [isDescriptorCode, FixedKind.code, b8_toNat, cUlong, cSym8, cSym32]⟩

end Amqp.Codec

namespace Amqp.Codec
open Amqp.Gen.Codes

theorem width_pos (k : FixedKind) : 1 ≤ k.width := by cases k <;> decide

theorem smallForm_ne (k : FixedKind) (bs s : Bytes) (h : smallForm k bs = some s) : 1 ≤ s.length := by
  obtain ⟨c, r, e, _⟩ := smallForm_dec k bs s [] h
  subst e; simp

mutual
  theorem enc_ne (ctx : Ctx) : ∀ (v : Value), WF v → ∀ e, enc ctx v = some e → 1 ≤ e.length
    | .null, _, e, he => by simp [enc] at he; subst he; simp
    | .bool b, _, e, he => by cases ctx <;> simp [enc, encBool] at he <;> subst he <;> simp
    | .fixed k bs, hw, e, he => by
      have hwid : bs.length = k.width := hw.1
      have := width_pos k
      simp only [enc, encFixed, Option.some.injEq] at he
      cases ctx <;> simp only [] at he
      · cases hs : smallForm k bs with
        | none => simp [hs] at he; subst he; simp
        | some s => simp [hs] at he; subst he; exact smallForm_ne k bs s hs
      · subst he; simp
      · subst he; omega
    | .var k bs, _, e, he => by
      simp only [enc, encVar] at he
      cases ctx <;> simp only [] at he
      · split at he
        · simp at he; subst he; simp
        · split at he
          · simp at he; subst he; simp
          · simp at he
      · simp at he; subst he; simp
      · simp at he; subst he; simp [be32_length]; omega
    | .list vs, _, e, he => by
      simp only [enc, bind, Option.bind] at he
      cases hb : encAll vs with
      | none => simp [hb] at he
      | some buf =>
        simp only [hb, writeList] at he
        split at he
        · simp at he; subst he; simp
        · split at he
          · simp at he; subst he; simp; omega
          · split at he
            · simp at he; subst he; simp [be32_length]; omega
            · simp at he
    | .map vs, _, e, he => by
      simp only [enc, bind, Option.bind] at he
      cases hb : encAll vs with
      | none => simp [hb] at he
      | some buf =>
        simp only [hb, writeMap] at he
        split at he
        · simp at he; subst he; simp; omega
        · split at he
          · simp at he; subst he; simp [be32_length]; omega
          · simp at he
    | .array vs, _, e, he => by
      simp only [enc, bind, Option.bind] at he
      cases hb : encElems true vs with
      | none => simp [hb] at he
      | some buf =>
        simp only [hb, writeArray] at he
        split at he
        · simp at he; subst he; simp; omega
        · split at he
          · simp at he; subst he; simp [be32_length]; omega
          · simp at he
    | .described d v, _, e, he => by
      simp only [enc, bind, Option.bind] at he
      cases h1 : enc ctx d with
      | none => simp [h1] at he
      | some a =>
        cases h2 : enc ctx v with
        | none => simp [h1, h2] at he
        | some b => simp [h1, h2] at he; subst he; simp
end

theorem encAll_len : ∀ (vs : List Value), WFAll vs → ∀ e, encAll vs = some e → vs.length ≤ e.length
  | [], _, e, he => by simp
  | v :: vs, hw, e, he => by
    have hw' : WF v ∧ WFAll vs := hw
    simp only [encAll, bind, Option.bind] at he
    cases h1 : enc .none v with
    | none => simp [h1] at he
    | some a =>
      cases h2 : encAll vs with
      | none => simp [h1, h2] at he
      | some b =>
        simp [h1, h2] at he; subst he
        have := enc_ne .none v hw'.1 a h1
        have := encAll_len vs hw'.2 b h2
        simp only [List.length_cons, List.length_append]; omega

theorem encElems_len (f : Bool) : ∀ (vs : List Value), WFAll vs → ∀ e, encElems f vs = some e →
    vs.length ≤ e.length
  | [], _, e, he => by simp
  | v :: vs, hw, e, he => by
    have hw' : WF v ∧ WFAll vs := hw
    simp only [encElems, bind, Option.bind] at he
    cases h1 : enc (if f then Ctx.first else Ctx.other) v with
    | none => simp [h1] at he
    | some a =>
      cases h2 : encElems false vs with
      | none => simp [h1, h2] at he
      | some b =>
        simp [h1, h2] at he; subst he
        have := enc_ne _ v hw'.1 a h1
        have := encElems_len false vs hw'.2 b h2
        simp only [List.length_cons, List.length_append]; omega

end Amqp.Codec

namespace Amqp.Codec
open Amqp.Gen.Codes

/-! ### arrays of simple values -/

theorem elem_facts (v : Value) (c : Nat) (h : elemCode v = some c) :
    c < 256 ∧ isCode c = true ∧ zeroWidth c = false ∧ isCompoundCode c = false := by
  cases v with
  | bool b => simp [elemCode] at h; subst h; decide
  | fixed k bs => simp [elemCode] at h; subst h; cases k <;> decide
  | var k bs => simp [elemCode] at h; subst h; cases k <;> decide
  | _ => simp [elemCode] at h

/-- the first element of an array is its other-element form behind the constructor -/
theorem enc_first (v : Value) (c : Nat) (h : elemCode v = some c) (eo : Bytes)
    (he : enc .other v = some eo) : enc .first v = some (b8 c :: eo) := by
  cases v with
  | bool b => simp [elemCode] at h; subst h; cases b <;> simp [enc, encBool] at he ⊢ <;> exact he
  | fixed k bs => simp [elemCode] at h; subst h; simp [enc, encFixed] at he ⊢; exact he
  | var k bs => simp [elemCode] at h; subst h; simp [enc, encVar] at he ⊢; exact he
  | _ => simp [elemCode] at h

theorem enc_other_some (v : Value) (h : (elemCode v).isSome) : ∃ ao, enc .other v = some ao := by
  cases v <;> simp [elemCode] at h <;> simp [enc, encVar]

theorem dec_elem_simple (fuel depth zw : Nat) (v : Value) (c : Nat) (h : elemCode v = some c) (hw : WF v)
    (eo rest : Bytes) (he : enc .other v = some eo) :
    dec (fuel + 1) depth ⟨eo ++ rest, some c, zw⟩ = .ok (v, ⟨rest, some c, zw⟩) := by
  cases v with
  | bool b =>
    simp [elemCode] at h; subst h
    simp [enc] at he; subst he
    exact dec_elem_bool fuel depth zw b rest
  | fixed k bs =>
    simp [elemCode] at h; subst h
    simp [enc, encFixed] at he; subst he
    exact dec_elem_fixed fuel depth zw k bs rest hw.1 hw.2
  | var k bs =>
    simp [elemCode] at h; subst h
    simp [enc, encVar] at he; subst he
    have := dec_elem_var fuel depth zw k bs rest hw.2 hw.1
    simpa [List.append_assoc] using this
  | _ => simp [elemCode] at h

theorem decArr_simple (c : Nat) : ∀ (vs : List Value), (∀ v ∈ vs, elemCode v = some c ∧ WF v) →
    ∀ (eo tail : Bytes), encElems false vs = some eo →
    ∀ (fuel depth zw startLen size : Nat), vs.length + 1 ≤ fuel → startLen ≤ size + tail.length →
    decArr fuel depth vs.length ⟨eo ++ tail, some c, zw⟩ startLen size = .ok (vs, ⟨tail, none, zw⟩)
  | [], _, eo, tail, he, fuel, depth, zw, startLen, size, hf, _ => by
    simp [encElems] at he; subst he
    cases fuel with
    | zero => omega
    | succ f => simp [decArr, pure, Except.pure]
  | v :: vs, hall, eo, tail, he, fuel, depth, zw, startLen, size, hf, hs => by
    obtain ⟨hc, hw⟩ := hall v (by simp)
    simp only [encElems, Bool.false_eq_true, if_false, bind, Option.bind] at he
    cases h1 : enc .other v with
    | none => simp [h1] at he
    | some a =>
      cases h2 : encElems false vs with
      | none => simp [h1, h2] at he
      | some b =>
        simp [h1, h2] at he; subst he
        cases fuel with
        | zero => omega
        | succ f =>
          cases f with
          | zero => simp at hf
          | succ f' =>
            have hd := dec_elem_simple f' depth zw v c hc hw a (b ++ tail) h1
            have ih := decArr_simple c vs (fun w hw' => hall w (by simp [hw'])) b tail h2 (f' + 1) depth zw
              startLen size (by simp at hf ⊢; omega) hs
            have hsz : ¬ (startLen - (b ++ tail).length > size) := by
              simp only [List.length_append]; omega
            simp only [List.length_cons, decArr, List.append_assoc, hd, bind, Except.bind, hsz, if_false, ih,
              pure, Except.pure]

theorem sameSimple_code : ∀ (v : Value) (vs : List Value), SameSimple (v :: vs) →
    ∃ c, ∀ w ∈ v :: vs, elemCode w = some c
  | v, [], h => by
    have h' : (elemCode v).isSome := h
    obtain ⟨c, hc⟩ := Option.isSome_iff_exists.mp h'
    exact ⟨c, by simp [hc]⟩
  | v, w :: vs, h => by
    have h' : (elemCode v).isSome ∧ elemCode v = elemCode w ∧ SameSimple (w :: vs) := h
    obtain ⟨c, hc⟩ := sameSimple_code w vs h'.2.2
    refine ⟨c, ?_⟩
    intro x hx
    simp only [List.mem_cons] at hx
    rcases hx with rfl | hx
    · rw [h'.2.1]; exact hc w (by simp)
    · exact hc x (by simpa using hx)

end Amqp.Codec

namespace Amqp.Codec
open Amqp.Gen.Codes

theorem WFAll_mem : ∀ (vs : List Value), WFAll vs → ∀ v ∈ vs, WF v
  | [], _, v, hv => by simp at hv
  | w :: ws, h, v, hv => by
    have h' : WF w ∧ WFAll ws := h
    simp only [List.mem_cons] at hv
    rcases hv with rfl | hv
    · exact h'.1
    · exact WFAll_mem ws h'.2 v hv

theorem costAll_ge : ∀ (vs : List Value), vs.length + 1 ≤ costAll vs
  | [] => by simp [costAll]
  | v :: vs => by have := costAll_ge vs; simp only [costAll, List.length_cons]; omega

mutual
  /-- **Round trip at the level of `dec`/`enc`.** -/
  theorem rt : ∀ (v : Value), WF v → ∀ (e : Bytes), enc .none v = some e →
      ∀ (tail : Bytes) (fuel depth zw : Nat), cost v ≤ fuel → nest v ≤ depth →
      dec fuel depth ⟨e ++ tail, none, zw⟩ = .ok (v, ⟨tail, none, zw⟩)
    | .null, _, e, he, tail, fuel, depth, zw, hf, _ => by
      simp [enc] at he; subst he
      cases fuel with
      | zero => simp [cost] at hf
      | succ f => exact dec_null f depth zw tail
    | .bool b, _, e, he, tail, fuel, depth, zw, hf, _ => by
      simp [enc] at he; subst he
      cases fuel with
      | zero => simp [cost] at hf
      | succ f => exact dec_encBool f depth zw b tail
    | .fixed k bs, hw, e, he, tail, fuel, depth, zw, hf, _ => by
      simp [enc] at he; subst he
      cases fuel with
      | zero => simp [cost] at hf
      | succ f => exact dec_encFixed f depth zw k bs tail hw.1 hw.2
    | .var k bs, hw, e, he, tail, fuel, depth, zw, hf, _ => by
      simp only [enc] at he
      cases fuel with
      | zero => simp [cost] at hf
      | succ f => exact dec_encVar_none f depth zw k bs e tail he hw.1
    | .list vs, hw, e, he, tail, fuel, depth, zw, hf, hd => by
      have hw' : WFAll vs ∧ vs.length ≤ MAX_ARRAY_COUNT := hw
      simp only [enc, bind, Option.bind] at he
      cases hb : encAll vs with
      | none => simp [hb] at he
      | some buf =>
        simp only [hb] at he
        have hlen := encAll_len vs hw'.1 buf hb
        have hdep : 0 < depth := by simp only [nest] at hd; omega
        cases fuel with
        | zero => simp [cost] at hf
        | succ f =>
          have ih := rtAll vs hw'.1 buf hb tail f (depth - 1) zw (by simp only [cost] at hf; omega)
            (by simp only [nest] at hd; omega)
          unfold writeList at he
          split at he
          · rename_i h0
            simp at he; subst he
            have : vs = [] := List.length_eq_zero_iff.mp (by omega)
            subst this
            exact dec_list0 f depth zw tail hdep
          · split at he
            · rename_i h0 h8
              simp at he; subst he
              simp only [U8_MAX_MINUS_1] at h8
              have := dec_list8 f depth zw vs.length (buf.length + OFFSET_LIST8) (buf ++ tail)
                (by simp [OFFSET_LIST8]) (by simp [OFFSET_LIST8]; omega) (by omega) hdep
              simp only [Ctx.writesCode, if_true, List.cons_append, List.nil_append, List.append_assoc,
                List.singleton_append] at this ⊢
              rw [this, ih]; rfl
            · split at he
              · rename_i h0 h8 h32
                simp at he; subst he
                simp only [U32_MAX_MINUS_4] at h32
                have := dec_list32 f depth zw vs.length (buf.length + OFFSET_LIST32)
                  (be32 (buf.length + OFFSET_LIST32)) (be32 vs.length) (buf ++ tail) rfl rfl
                  (fromBe_be32 _ (by simp [OFFSET_LIST32]; omega)) (fromBe_be32 _ (by omega))
                  (by simp [OFFSET_LIST32]) hw'.2 hdep
                simp only [Ctx.writesCode, if_true, List.cons_append, List.nil_append, List.append_assoc,
                  List.singleton_append] at this ⊢
                rw [this, ih]; rfl
              · simp at he
    | .map vs, hw, e, he, tail, fuel, depth, zw, hf, hd => by
      have hw' : WFAll vs ∧ vs.length % 2 = 0 ∧ vs.length ≤ MAX_ARRAY_COUNT ∧
          flattenPairs (insertAll [] vs) = vs := hw
      simp only [enc, bind, Option.bind] at he
      cases hb : encAll vs with
      | none => simp [hb] at he
      | some buf =>
        simp only [hb] at he
        have hlen := encAll_len vs hw'.1 buf hb
        have hdep : 0 < depth := by simp only [nest] at hd; omega
        cases fuel with
        | zero => simp [cost] at hf
        | succ f =>
          have ih := rtAll vs hw'.1 buf hb tail f (depth - 1) zw (by simp only [cost] at hf; omega)
            (by simp only [nest] at hd; omega)
          unfold writeMap at he
          split at he
          · rename_i h8
            simp at he; subst he
            simp only [U8_MAX_MINUS_1] at h8
            have := dec_map8 f depth zw vs.length (buf.length + OFFSET_MAP8) (buf ++ tail)
              (by simp [OFFSET_MAP8]) (by simp [OFFSET_MAP8]; omega) (by omega) hw'.2.1 hdep
            simp only [Ctx.writesCode, if_true, List.cons_append, List.nil_append, List.append_assoc,
              List.singleton_append] at this ⊢
            rw [this, ih]
            simp only [bind, Except.bind, pure, Except.pure, hw'.2.2.2]
          · split at he
            · rename_i h8 h32
              simp at he; subst he
              simp only [U32_MAX_MINUS_4] at h32
              have := dec_map32 f depth zw vs.length (buf.length + OFFSET_MAP32)
                (be32 (buf.length + OFFSET_MAP32)) (be32 vs.length) (buf ++ tail) rfl rfl
                (fromBe_be32 _ (by simp [OFFSET_MAP32]; omega)) (fromBe_be32 _ (by omega))
                (by simp [OFFSET_MAP32]) hw'.2.2.1 hw'.2.1 hdep
              simp only [Ctx.writesCode, if_true, List.cons_append, List.nil_append, List.append_assoc,
                List.singleton_append] at this ⊢
              rw [this, ih]
              simp only [bind, Except.bind, pure, Except.pure, hw'.2.2.2]
            · simp at he
    | .array vs, hw, e, he, tail, fuel, depth, zw, hf, hd => by
      have hw' : WFAll vs ∧ vs.length ≤ MAX_ARRAY_COUNT ∧ SameSimple vs := hw
      have hdep : 0 < depth := by simp only [nest] at hd; omega
      simp only [enc, bind, Option.bind] at he
      cases hb : encElems true vs with
      | none => simp [hb] at he
      | some buf =>
        simp only [hb] at he
        cases fuel with
        | zero => simp [cost] at hf
        | succ f =>
          cases vs with
          | nil =>
            simp [encElems] at hb; subst hb
            simp [writeArray, U8_MAX_MINUS_1, Ctx.writesCode] at he; subst he
            exact dec_array8_empty f depth zw 1 tail (by decide) hdep
          | cons v ws =>
            obtain ⟨c, hc⟩ := sameSimple_code v ws hw'.2.2
            have hall : ∀ w ∈ v :: ws, elemCode w = some c ∧ WF w :=
              fun w hw2 => ⟨hc w hw2, WFAll_mem _ hw'.1 w hw2⟩
            obtain ⟨c1, c2, c3, _⟩ := elem_facts v c (hc v (by simp))
            -- split the buffer into the constructor and the element bodies
            simp only [encElems, if_true, bind, Option.bind] at hb
            cases h1 : enc .first v with
            | none => simp [h1] at hb
            | some a =>
              cases h2 : encElems false ws with
              | none => simp [h1, h2] at hb
              | some b =>
                simp [h1, h2] at hb; subst hb
                -- `enc .first v = b8 c :: (enc .other v)`
                obtain ⟨ao0, hao0⟩ := enc_other_some v (by rw [hc v (by simp)]; rfl)
                cases ho : enc .other v with
                | none => rw [hao0] at ho; cases ho
                | some ao =>
                  have hfirst := enc_first v c (hc v (by simp)) ao ho
                  rw [h1] at hfirst
                  simp at hfirst; subst hfirst
                  have hel : encElems false (v :: ws) = some (ao ++ b) := by
                    simp [encElems, ho, h2, bind, Option.bind]
                  have hcount := encElems_len false (v :: ws) hw'.1 (ao ++ b) hel
                  have harr := decArr_simple c (v :: ws) hall (ao ++ b) tail hel f (depth - 1) zw
                    ((ao ++ b) ++ tail).length (ao ++ b).length
                    (by have := costAll_ge (v :: ws); simp only [cost] at hf; omega)
                    (by simp only [List.length_append]; omega)
                  unfold writeArray at he
                  split at he
                  · rename_i h8
                    simp at he; subst he
                    simp only [U8_MAX_MINUS_1, List.length_cons, List.length_append] at h8
                    have := dec_array8 f depth zw (v :: ws).length ((b8 c :: (ao ++ b)).length + 1) c
                      ((ao ++ b) ++ tail) (by simp) (by simp [List.length_append]; omega) (by simp)
                      (by simp only [List.length_cons, List.length_append] at hcount ⊢; omega)
                      c1 c2 c3 hdep
                    simp only [Ctx.writesCode, if_true, List.cons_append, List.nil_append, List.append_assoc,
                      List.singleton_append, List.length_cons, List.length_append] at this harr ⊢
                    rw [this]
                    have e2 : (ao.length + b.length + 1 + 1 - 2) = ao.length + b.length := by omega
                    rw [e2, harr]; rfl
                  · split at he
                    · rename_i h8 h32
                      simp at he; subst he
                      simp only [U32_MAX_MINUS_4, List.length_cons, List.length_append] at h32
                      have := dec_array32 f depth zw (v :: ws).length ((b8 c :: (ao ++ b)).length + 4) c
                        (be32 ((b8 c :: (ao ++ b)).length + 4)) (be32 (v :: ws).length) ((ao ++ b) ++ tail)
                        rfl rfl
                        (fromBe_be32 _ (by simp only [List.length_cons, List.length_append]; omega))
                        (fromBe_be32 _ (by simp only [List.length_cons, List.length_append] at hcount ⊢; omega))
                        (by simp) (by simp)
                        (by simp only [List.length_cons, List.length_append] at hcount ⊢; omega)
                        hw'.2.1 c1 c2 c3 hdep
                      simp only [Ctx.writesCode, if_true, List.cons_append, List.nil_append, List.append_assoc,
                        List.singleton_append, List.length_cons, List.length_append] at this harr ⊢
                      rw [this]
                      have e2 : (ao.length + b.length + 1 + 4 - 5) = ao.length + b.length := by omega
                      rw [e2, harr]; rfl
                    · simp at he
    | .described d v, hw, e, he, tail, fuel, depth, zw, hf, hd => by
      have hw' : ((∃ bs, d = .var .symbol bs) ∨ (∃ bs, d = .fixed .ulong bs)) ∧ WF d ∧ WF v := hw
      have hdep : 0 < depth := by simp only [nest] at hd; omega
      simp only [enc, bind, Option.bind] at he
      cases h1 : enc .none d with
      | none => simp [h1] at he
      | some a =>
        cases h2 : enc .none v with
        | none => simp [h1, h2] at he
        | some b =>
          simp [h1, h2] at he; subst he
          cases fuel with
          | zero => simp [cost] at hf
          | succ f =>
            obtain ⟨dcb, r, ea, hdc⟩ := descriptor_head d a hw'.1 hw'.2.1 h1
            subst ea
            have i1 := rt d hw'.2.1 (dcb :: r) h1 (b ++ tail) f (depth - 1) zw
              (by simp only [cost] at hf; omega)
              (by simp only [nest] at hd; omega)
            have i2 := rt v hw'.2.2 b h2 tail f (depth - 1) zw (by simp only [cost] at hf; omega)
              (by simp only [nest] at hd; omega)
            have hne : 1 ≤ b.length := enc_ne .none v hw'.2.2 b h2
            have hnotempty : (b ++ tail).isEmpty = false := by
              cases b with
              | nil => simp at hne
              | cons x xs => rfl
            have := dec_described f depth zw dcb (r ++ (b ++ tail)) hdc hdep
            simp only [List.cons_append, List.append_assoc] at this i1 ⊢
            rw [this, i1]
            simp only [bind, Except.bind, hnotempty, Bool.false_eq_true, if_false, i2, pure, Except.pure]
  theorem rtAll : ∀ (vs : List Value), WFAll vs → ∀ (e : Bytes), encAll vs = some e →
      ∀ (tail : Bytes) (fuel depth zw : Nat), costAll vs ≤ fuel → nestAll vs ≤ depth →
      decN fuel depth vs.length ⟨e ++ tail, none, zw⟩ = .ok (vs, ⟨tail, none, zw⟩)
    | [], _, e, he, tail, fuel, depth, zw, hf, _ => by
      simp [encAll] at he; subst he
      cases fuel with
      | zero => simp [costAll] at hf
      | succ f => simp [decN, pure, Except.pure]
    | v :: vs, hw, e, he, tail, fuel, depth, zw, hf, hd => by
      have hw' : WF v ∧ WFAll vs := hw
      simp only [encAll, bind, Option.bind] at he
      cases h1 : enc .none v with
      | none => simp [h1] at he
      | some a =>
        cases h2 : encAll vs with
        | none => simp [h1, h2] at he
        | some b =>
          simp [h1, h2] at he; subst he
          cases fuel with
          | zero => simp [costAll] at hf
          | succ f =>
            have i1 := rt v hw'.1 a h1 (b ++ tail) f depth zw (by simp only [costAll] at hf; omega)
              (by simp only [nestAll] at hd; omega)
            have i2 := rtAll vs hw'.2 b h2 tail f depth zw (by simp only [costAll] at hf; omega)
              (by simp only [nestAll] at hd; omega)
            simp only [List.length_cons, decN, List.append_assoc, i1, bind, Except.bind, i2, pure, Except.pure]
end

end Amqp.Codec

namespace Amqp.Codec
open Amqp.Gen.Codes

/-! ### the fuel of `decode` is enough: the cost of a value is linear in its encoding -/

theorem writeList_len (ctx : Ctx) (n : Nat) (buf e : Bytes) (h : writeList ctx n buf = some e) :
    buf.length + 1 ≤ e.length := by
  unfold writeList at h
  split at h
  · rename_i h0; simp at h; subst h; simp [h0]
  · split at h
    · simp at h; subst h; simp; omega
    · split at h
      · simp at h; subst h; simp [be32_length]; omega
      · simp at h

theorem writeMap_len (ctx : Ctx) (n : Nat) (buf e : Bytes) (h : writeMap ctx n buf = some e) :
    buf.length + 1 ≤ e.length := by
  unfold writeMap at h
  split at h
  · simp at h; subst h; simp; omega
  · split at h
    · simp at h; subst h; simp [be32_length]; omega
    · simp at h

theorem writeArray_len (ctx : Ctx) (n : Nat) (buf e : Bytes) (h : writeArray ctx n buf = some e) :
    buf.length + 1 ≤ e.length := by
  unfold writeArray at h
  split at h
  · simp at h; subst h; simp; omega
  · split at h
    · simp at h; subst h; simp [be32_length]; omega
    · simp at h

mutual
  theorem cost_le (ctx : Ctx) : ∀ (v : Value), WF v → ∀ e, enc ctx v = some e → cost v + 1 ≤ 4 * e.length
    | .null, hw, e, he => by have := enc_ne ctx .null hw e he; simp only [cost]; omega
    | .bool b, hw, e, he => by have := enc_ne ctx (.bool b) hw e he; simp only [cost]; omega
    | .fixed k bs, hw, e, he => by have := enc_ne ctx (.fixed k bs) hw e he; simp only [cost]; omega
    | .var k bs, hw, e, he => by have := enc_ne ctx (.var k bs) hw e he; simp only [cost]; omega
    | .list vs, hw, e, he => by
      have hw' : WFAll vs ∧ vs.length ≤ MAX_ARRAY_COUNT := hw
      simp only [enc, bind, Option.bind] at he
      cases hb : encAll vs with
      | none => simp [hb] at he
      | some buf =>
        simp only [hb] at he
        have := costAll_le vs hw'.1 buf hb
        have := writeList_len ctx vs.length buf e he
        simp only [cost]; omega
    | .map vs, hw, e, he => by
      have hw' : WFAll vs := hw.1
      simp only [enc, bind, Option.bind] at he
      cases hb : encAll vs with
      | none => simp [hb] at he
      | some buf =>
        simp only [hb] at he
        have := costAll_le vs hw' buf hb
        have := writeMap_len ctx vs.length buf e he
        simp only [cost]; omega
    | .array vs, hw, e, he => by
      have hw' : WFAll vs := hw.1
      simp only [enc, bind, Option.bind] at he
      cases hb : encElems true vs with
      | none => simp [hb] at he
      | some buf =>
        simp only [hb] at he
        have := costElems_le true vs hw' buf hb
        have := writeArray_len ctx vs.length buf e he
        simp only [cost]; omega
    | .described d v, hw, e, he => by
      have hw' : WF d ∧ WF v := hw.2
      simp only [enc, bind, Option.bind] at he
      cases h1 : enc ctx d with
      | none => simp [h1] at he
      | some a =>
        cases h2 : enc ctx v with
        | none => simp [h1, h2] at he
        | some b =>
          simp [h1, h2] at he; subst he
          have := cost_le ctx d hw'.1 a h1
          have := cost_le ctx v hw'.2 b h2
          simp only [cost, List.length_cons, List.length_append]; omega
  theorem costAll_le : ∀ (vs : List Value), WFAll vs → ∀ e, encAll vs = some e → costAll vs ≤ 1 + 4 * e.length
    | [], _, e, he => by simp [costAll]
    | v :: vs, hw, e, he => by
      have hw' : WF v ∧ WFAll vs := hw
      simp only [encAll, bind, Option.bind] at he
      cases h1 : enc .none v with
      | none => simp [h1] at he
      | some a =>
        cases h2 : encAll vs with
        | none => simp [h1, h2] at he
        | some b =>
          simp [h1, h2] at he; subst he
          have := cost_le .none v hw'.1 a h1
          have := costAll_le vs hw'.2 b h2
          have := enc_ne .none v hw'.1 a h1
          simp only [costAll, List.length_append]; omega
  theorem costElems_le (f : Bool) : ∀ (vs : List Value), WFAll vs → ∀ e, encElems f vs = some e →
      costAll vs ≤ 1 + 4 * e.length
    | [], _, e, he => by simp [costAll]
    | v :: vs, hw, e, he => by
      have hw' : WF v ∧ WFAll vs := hw
      simp only [encElems, bind, Option.bind] at he
      cases h1 : enc (if f then Ctx.first else Ctx.other) v with
      | none => simp [h1] at he
      | some a =>
        cases h2 : encElems false vs with
        | none => simp [h1, h2] at he
        | some b =>
          simp [h1, h2] at he; subst he
          have := cost_le _ v hw'.1 a h1
          have := costElems_le false vs hw'.2 b h2
          have := enc_ne _ v hw'.1 a h1
          simp only [costAll, List.length_append]; omega
end

/-- the model's recursion budget covers the encoding of any value of that length -/
theorem fuel_enough (v : Value) (e tail : Bytes) (hc : cost v + 1 ≤ 4 * e.length) :
    cost v ≤ decodeFuel (e ++ tail).length := by
  simp only [decodeFuel, List.length_append, MAX_ARRAY_COUNT]
  have : 4 * e.length ≤ (e.length + tail.length + 1) * 65538 := by
    calc 4 * e.length ≤ 65538 * e.length := by omega
      _ ≤ 65538 * (e.length + tail.length + 1) := by apply Nat.mul_le_mul_left; omega
      _ = (e.length + tail.length + 1) * 65538 := Nat.mul_comm _ _
  omega

end Amqp.Codec
