import Amqp.Frame

namespace Amqp.Frame
open Amqp.Gen.FrameK

/-! ### the middle loop -/

/-- pieces of the middle frames are all exactly `B - p2len` bytes, what is left
    fits the last frame, and nothing is lost -/
theorem middleLoop_spec (B p2len : Nat) (hlt : p2len < B) : ∀ (fuel : Nat) (rest : Bytes), rest.length ≤ fuel →
    (∀ c ∈ (middleLoop B p2len fuel (p2len + rest.length) rest).1, c.length = B - p2len) ∧
    p2len + (middleLoop B p2len fuel (p2len + rest.length) rest).2.length ≤ B ∧
    (middleLoop B p2len fuel (p2len + rest.length) rest).1.flatten ++ (middleLoop B p2len fuel (p2len + rest.length) rest).2 = rest := by
  intro fuel
  induction fuel with
  | zero =>
    intro rest h
    have : rest = [] := List.length_eq_zero_iff.mp (by omega)
    subst this
    simp [middleLoop]; omega
  | succ fuel ih =>
    intro rest h
    unfold middleLoop
    by_cases hc : encode_transfer.cond_while_0 (p2len + rest.length) B = true
    · have hgt : p2len + rest.length > B := by simpa [encode_transfer.cond_while_0] using hc
      simp only [hc, if_true, encode_transfer.let_split_index_1, psub64, encode_transfer.assign_remaining_bytes_0]
      have hk : B - p2len ≤ rest.length := by omega
      have hdrop : (rest.drop (B - p2len)).length ≤ fuel := by
        simp [List.length_drop]; omega
      obtain ⟨i1, i2, i3⟩ := ih (rest.drop (B - p2len)) hdrop
      refine ⟨?_, i2, ?_⟩
      · intro c hcm
        simp only [List.mem_cons] at hcm
        cases hcm with
        | inl h' => subst h'; simp [List.length_take]; omega
        | inr h' => exact i1 c h'
      · simp only [List.flatten_cons, List.append_assoc, i3, List.take_append_drop]
    · have hle : p2len + rest.length ≤ B := by
        simp [encode_transfer.cond_while_0] at hc; omega
      simp [hc, hle]

theorem middle_spec (B p2len : Nat) (hlt : p2len < B) (fuel : Nat) (rest : Bytes) (h : rest.length ≤ fuel) :
    (∀ c ∈ (middle B p2len fuel rest).1, c.length = B - p2len) ∧
    p2len + (middle B p2len fuel rest).2.length ≤ B ∧
    (middle B p2len fuel rest).1.flatten ++ (middle B p2len fuel rest).2 = rest := by
  unfold middle
  simp only [encode_transfer.let_remaining_bytes_1]
  exact middleLoop_spec B p2len hlt fuel rest h

/-! ### `split` -/

structure Fits (B : Nat) (p : Perfs) : Prop where
  /-- setting `more` never shortens the encoding -/
  p01 : p.p0.length ≤ p.p1.length
  p1 : p.p1.length ≤ B
  p2 : p.p2.length < B
  p3 : p.p3.length ≤ p.p2.length

def payloadOf (l : List (Bytes × Bytes)) : Bytes := (l.map (·.2)).flatten

theorem payloadOf_cons (q c : Bytes) (l : List (Bytes × Bytes)) :
    payloadOf ((q, c) :: l) = c ++ payloadOf l := by
  simp [payloadOf]

theorem payloadOf_append (a b : List (Bytes × Bytes)) :
    payloadOf (a ++ b) = payloadOf a ++ payloadOf b := by
  simp [payloadOf]

theorem payloadOf_map_const (q : Bytes) (cs : List Bytes) :
    payloadOf (cs.map (fun c => (q, c))) = cs.flatten := by
  induction cs with
  | nil => rfl
  | cons c cs ih => simp [payloadOf] at ih ⊢; exact ih

theorem split_single (B : Nat) (p : Perfs) (payload : Bytes)
    (h : ¬ encode_transfer.cond_if_0 p.p0.length payload.length B = true) :
    split B p payload = [(p.p0, payload)] := by
  simp [split, h]

theorem split_multi (B : Nat) (p : Perfs) (payload : Bytes)
    (h : encode_transfer.cond_if_0 p.p0.length payload.length B = true) :
    split B p payload =
      (p.p1, payload.take (B - p.p1.length)) ::
        (middle B p.p2.length payload.length (payload.drop (B - p.p1.length))).1.map (fun c => (p.p2, c)) ++
        [(p.p3, (middle B p.p2.length payload.length (payload.drop (B - p.p1.length))).2)] := by
  simp [split, h, encode_transfer.let_split_index_0, psub64]

end Amqp.Frame

namespace Amqp.Frame
open Amqp.Gen.FrameK

/-- **payload_preserved**: the payload pieces of the frames concatenate to the payload -/
theorem split_payload (B : Nat) (p : Perfs) (payload : Bytes) (hf : Fits B p) :
    payloadOf (split B p payload) = payload := by
  by_cases h : encode_transfer.cond_if_0 p.p0.length payload.length B = true
  · rw [split_multi B p payload h]
    have hm := (middle_spec B p.p2.length hf.p2 payload.length (payload.drop (B - p.p1.length))
      (by simp [List.length_drop])).2.2
    have e : ∀ (q : Bytes) (cs : List Bytes), ((cs.map (fun c => (q, c))).map (·.2)) = cs := by
      intro q cs; induction cs with
      | nil => rfl
      | cons c cs ih => simp [ih]
    simp only [payloadOf, List.map_cons, List.map_append, List.map_nil, List.flatten_cons,
      List.flatten_append, List.flatten_nil, List.append_nil, e]
    rw [List.append_assoc, hm, List.take_append_drop]
  · rw [split_single B p payload h]; simp [payloadOf]

/-- body length (performative + payload piece) of each frame -/
def bodyLens (l : List (Bytes × Bytes)) : List Nat := l.map (fun qc => qc.1.length + qc.2.length)

/-- **frames_bounded / nonlast_exact**: when a transfer is split, every frame but
    the last has a body of exactly `B` bytes and the last at most `B`; when it
    is not split the single body is at most `B`. -/
theorem split_sizes (B : Nat) (p : Perfs) (payload : Bytes) (hf : Fits B p) :
    ∃ n last, bodyLens (split B p payload) = List.replicate n B ++ [last] ∧ last ≤ B := by
  by_cases h : encode_transfer.cond_if_0 p.p0.length payload.length B = true
  · rw [split_multi B p payload h]
    have hgt : p.p0.length + payload.length > B := by simpa [encode_transfer.cond_if_0] using h
    obtain ⟨m1, m2, _⟩ := middle_spec B p.p2.length hf.p2 payload.length (payload.drop (B - p.p1.length))
      (by simp [List.length_drop])
    generalize middle B p.p2.length payload.length (payload.drop (B - p.p1.length)) = mr at *
    obtain ⟨cs, rest⟩ := mr
    simp only at m1 m2
    refine ⟨cs.length + 1, p.p3.length + rest.length, ?_, by have := hf.p3; omega⟩
    have hfirst : p.p1.length + (payload.take (B - p.p1.length)).length = B := by
      have := hf.p01; have := hf.p1
      simp [List.length_take]; omega
    have hmid : ∀ (l : List Bytes), (∀ c ∈ l, c.length = B - p.p2.length) →
        bodyLens (l.map (fun c => (p.p2, c))) = List.replicate l.length B := by
      intro l hl
      induction l with
      | nil => rfl
      | cons c l ih =>
        have hc := hl c (by simp)
        have := hf.p2
        simp only [bodyLens, List.map_cons, List.length_cons, List.replicate_succ] at ih ⊢
        rw [ih (fun c' hc' => hl c' (by simp [hc']))]
        simp [hc]; omega
    simp only [bodyLens, List.map_cons, List.map_append, List.map_nil] at hmid ⊢
    rw [hmid cs m1, hfirst]
    simp [List.replicate_succ]
  · rw [split_single B p payload h]
    have hle : p.p0.length + payload.length ≤ B := by
      simp [encode_transfer.cond_if_0] at h; omega
    exact ⟨0, _, by simp [bodyLens], hle⟩

end Amqp.Frame

namespace Amqp.Frame
open Amqp.Gen.FrameK

/-! ### `start_send`'s re-chunking -/

theorem chunks_exact (E : Nat) (hE : 0 < E) : ∀ (fs : List Bytes) (last : Bytes) (fuel : Nat),
    (∀ f ∈ fs, f.length = E) → 0 < last.length → last.length ≤ E →
    (fs.flatten ++ last).length ≤ fuel →
    chunks E fuel (fs.flatten ++ last) = fs ++ [last] := by
  intro fs
  induction fs with
  | nil =>
    intro last fuel _ _ hle _
    cases fuel with
    | zero => simp [chunks]
    | succ fuel =>
      have : ¬ (last.length > E) := by omega
      simp [chunks, start_send.cond_while_0, this]
  | cons f fs ih =>
    intro last fuel hall hpos hle hfuel
    have hf : f.length = E := hall f (by simp)
    cases fuel with
    | zero =>
      simp only [List.flatten_cons, List.length_append] at hfuel
      omega
    | succ fuel =>
      have hgt : (f ++ fs.flatten ++ last).length > E := by
        simp only [List.length_append]; omega
      have htake : (f ++ (fs.flatten ++ last)).take E = f := by
        rw [← hf]; simp
      have hdrop : (f ++ (fs.flatten ++ last)).drop E = fs.flatten ++ last := by
        rw [← hf]; simp
      simp only [List.flatten_cons, List.append_assoc] at hgt hfuel ⊢
      simp only [chunks, start_send.cond_while_0, hgt, decide_true, if_true, htake, hdrop]
      rw [ih last fuel (fun g hg => hall g (by simp [hg])) hpos hle (by
        simp only [List.length_append] at hfuel ⊢; omega)]
      simp

theorem prefixed_length (c : Bytes) : (prefixed c).length = c.length + 4 := by
  simp [prefixed, be32]

/-! ### stream decoder -/

theorem readBe32_be32 (n : Nat) (h : n < 4294967296) :
    readBe32 (UInt8.ofNat (n / 16777216 % 256)) (UInt8.ofNat (n / 65536 % 256))
      (UInt8.ofNat (n / 256 % 256)) (UInt8.ofNat (n % 256)) = n := by
  simp only [readBe32, UInt8.toNat_ofNat']
  omega

end Amqp.Frame

namespace Amqp.Frame
open Amqp.Gen.FrameK

theorem lengthFieldLen_eq : lengthFieldLen = 4 := rfl

/-- one unfolding of `drain` on a buffer with a complete length field -/
theorem drain_cons4 (m fuel : Nat) (b0 b1 b2 b3 : UInt8) (rest : Bytes) :
    drain m (fuel + 1) (b0 :: b1 :: b2 :: b3 :: rest) =
      (if readBe32 b0 b1 b2 b3 < 4 then ([], b0 :: b1 :: b2 :: b3 :: rest, some .tooShort)
       else if readBe32 b0 b1 b2 b3 > m then ([], b0 :: b1 :: b2 :: b3 :: rest, some .tooLong)
       else if rest.length < readBe32 b0 b1 b2 b3 - 4 then ([], b0 :: b1 :: b2 :: b3 :: rest, none)
       else ((rest.take (readBe32 b0 b1 b2 b3 - 4)) :: (drain m fuel (rest.drop (readBe32 b0 b1 b2 b3 - 4))).1,
             (drain m fuel (rest.drop (readBe32 b0 b1 b2 b3 - 4))).2.1,
             (drain m fuel (rest.drop (readBe32 b0 b1 b2 b3 - 4))).2.2)) := by
  by_cases h1 : readBe32 b0 b1 b2 b3 < 4
  · simp [drain, lengthFieldLen_eq, h1]
  · by_cases h2 : readBe32 b0 b1 b2 b3 > m
    · simp [drain, lengthFieldLen_eq, h1, h2]
    · by_cases h3 : rest.length < readBe32 b0 b1 b2 b3 - 4
      · simp [drain, lengthFieldLen_eq, h1, h2, h3]
      · simp [drain, lengthFieldLen_eq, h1, h2, h3]

theorem drain_short (m fuel : Nat) (buf : Bytes) (h : buf.length < 4) :
    drain m fuel buf = ([], buf, none) := by
  cases fuel with
  | zero => rfl
  | succ fuel =>
    match buf, h with
    | [], _ => rfl
    | [_], _ => rfl
    | [_, _], _ => rfl
    | [_, _, _], _ => rfl
    | _ :: _ :: _ :: _ :: _, h => simp at h; omega

/-- fuel beyond the buffer length makes no difference -/
theorem drain_fuel (m : Nat) : ∀ (f1 f2 : Nat) (buf : Bytes), buf.length ≤ f1 → buf.length ≤ f2 →
    drain m f1 buf = drain m f2 buf := by
  intro f1
  induction f1 with
  | zero =>
    intro f2 buf h1 _
    have : buf = [] := List.length_eq_zero_iff.mp (by omega)
    subst this
    rw [drain_short m 0 [] (by simp), drain_short m f2 [] (by simp)]
  | succ f1 ih =>
    intro f2 buf h1 h2
    by_cases hs : buf.length < 4
    · rw [drain_short m _ buf hs, drain_short m _ buf hs]
    · match buf, hs with
      | b0 :: b1 :: b2 :: b3 :: rest, _ =>
        cases f2 with
        | zero => simp at h2
        | succ f2 =>
          rw [drain_cons4, drain_cons4]
          have hd : (rest.drop (readBe32 b0 b1 b2 b3 - 4)).length ≤ f1 := by
            simp only [List.length_cons, List.length_drop] at h1 ⊢; omega
          have hd2 : (rest.drop (readBe32 b0 b1 b2 b3 - 4)).length ≤ f2 := by
            simp only [List.length_cons, List.length_drop] at h2 ⊢; omega
          rw [ih f2 _ hd hd2]
      | [], hs => simp at hs
      | [_], hs => simp at hs
      | [_, _], hs => simp at hs
      | [_, _, _], hs => simp at hs

/-- drain with exactly enough fuel -/
def D (m : Nat) (buf : Bytes) : List Bytes × Bytes × Option DecErr := drain m buf.length buf

theorem D_eq (m f : Nat) (buf : Bytes) (h : buf.length ≤ f) : drain m f buf = D m buf :=
  drain_fuel m f buf.length buf h (Nat.le_refl _)

theorem D_short (m : Nat) (buf : Bytes) (h : buf.length < 4) : D m buf = ([], buf, none) :=
  drain_short m _ buf h

theorem D_cons4 (m : Nat) (b0 b1 b2 b3 : UInt8) (rest : Bytes) :
    D m (b0 :: b1 :: b2 :: b3 :: rest) =
      (if readBe32 b0 b1 b2 b3 < 4 then ([], b0 :: b1 :: b2 :: b3 :: rest, some .tooShort)
       else if readBe32 b0 b1 b2 b3 > m then ([], b0 :: b1 :: b2 :: b3 :: rest, some .tooLong)
       else if rest.length < readBe32 b0 b1 b2 b3 - 4 then ([], b0 :: b1 :: b2 :: b3 :: rest, none)
       else ((rest.take (readBe32 b0 b1 b2 b3 - 4)) :: (D m (rest.drop (readBe32 b0 b1 b2 b3 - 4))).1,
             (D m (rest.drop (readBe32 b0 b1 b2 b3 - 4))).2.1,
             (D m (rest.drop (readBe32 b0 b1 b2 b3 - 4))).2.2)) := by
  have h : (b0 :: b1 :: b2 :: b3 :: rest).length = (rest.length + 3) + 1 := by simp
  unfold D
  rw [h, drain_cons4]
  have : drain m (rest.length + 3) (rest.drop (readBe32 b0 b1 b2 b3 - 4)) =
      drain m (rest.drop (readBe32 b0 b1 b2 b3 - 4)).length (rest.drop (readBe32 b0 b1 b2 b3 - 4)) :=
    drain_fuel m _ _ _ (by simp only [List.length_drop]; omega) (Nat.le_refl _)
  rw [this]

end Amqp.Frame

namespace Amqp.Frame
open Amqp.Gen.FrameK


end Amqp.Frame


namespace Amqp.Frame
open Amqp.Gen.FrameK

theorem D_cons4_short (m : Nat) (b0 b1 b2 b3 : UInt8) (rest : Bytes) (h1 : readBe32 b0 b1 b2 b3 < 4) :
    D m (b0 :: b1 :: b2 :: b3 :: rest) = ([], b0 :: b1 :: b2 :: b3 :: rest, some .tooShort) := by
  rw [D_cons4, if_pos h1]

theorem D_cons4_long (m : Nat) (b0 b1 b2 b3 : UInt8) (rest : Bytes) (h1 : ¬ readBe32 b0 b1 b2 b3 < 4)
    (h2 : readBe32 b0 b1 b2 b3 > m) :
    D m (b0 :: b1 :: b2 :: b3 :: rest) = ([], b0 :: b1 :: b2 :: b3 :: rest, some .tooLong) := by
  rw [D_cons4, if_neg h1, if_pos h2]

theorem D_cons4_wait (m : Nat) (b0 b1 b2 b3 : UInt8) (rest : Bytes) (h1 : ¬ readBe32 b0 b1 b2 b3 < 4)
    (h2 : ¬ readBe32 b0 b1 b2 b3 > m) (h3 : rest.length < readBe32 b0 b1 b2 b3 - 4) :
    D m (b0 :: b1 :: b2 :: b3 :: rest) = ([], b0 :: b1 :: b2 :: b3 :: rest, none) := by
  rw [D_cons4, if_neg h1, if_neg h2, if_pos h3]

theorem D_cons4_frame (m : Nat) (b0 b1 b2 b3 : UInt8) (rest : Bytes) (h1 : ¬ readBe32 b0 b1 b2 b3 < 4)
    (h2 : ¬ readBe32 b0 b1 b2 b3 > m) (h3 : ¬ rest.length < readBe32 b0 b1 b2 b3 - 4)
    (fs : List Bytes) (r : Bytes) (e : Option DecErr)
    (hd : D m (rest.drop (readBe32 b0 b1 b2 b3 - 4)) = (fs, r, e)) :
    D m (b0 :: b1 :: b2 :: b3 :: rest) = (rest.take (readBe32 b0 b1 b2 b3 - 4) :: fs, r, e) := by
  rw [D_cons4, if_neg h1, if_neg h2, if_neg h3, hd]

/-- relational form of the append property -/
theorem D_append (m : Nat) : ∀ (n : Nat) (a b : Bytes) (fs : List Bytes) (r : Bytes) (e : Option DecErr),
    a.length ≤ n → D m a = (fs, r, e) →
    (∀ err, e = some err → D m (a ++ b) = (fs, r ++ b, some err)) ∧
    (e = none → ∀ fs' r' e', D m (r ++ b) = (fs', r', e') → D m (a ++ b) = (fs ++ fs', r', e')) := by
  intro n
  induction n with
  | zero =>
    intro a b fs r e h hd
    have : a = [] := List.length_eq_zero_iff.mp (by omega)
    subst this
    rw [D_short m [] (by simp)] at hd
    cases hd
    exact ⟨fun err he => (by cases he), fun _ fs' r' e' h' => h'⟩
  | succ n ih =>
    intro a b fs r e h hd
    by_cases hs : a.length < 4
    · rw [D_short m a hs] at hd
      cases hd
      exact ⟨fun err he => (by cases he), fun _ fs' r' e' h' => h'⟩
    · match a, hs with
      | [], hs => simp at hs
      | [_], hs => simp at hs
      | [_, _], hs => simp at hs
      | [_, _, _], hs => simp at hs
      | b0 :: b1 :: b2 :: b3 :: rest, _ =>
        have happ : (b0 :: b1 :: b2 :: b3 :: rest) ++ b = b0 :: b1 :: b2 :: b3 :: (rest ++ b) := rfl
        rw [happ]
        by_cases h1 : readBe32 b0 b1 b2 b3 < 4
        · rw [D_cons4_short m b0 b1 b2 b3 rest h1] at hd
          cases hd
          rw [D_cons4_short m b0 b1 b2 b3 (rest ++ b) h1]
          exact ⟨fun err he => (by cases he; rfl), fun hn => (by cases hn)⟩
        · by_cases h2 : readBe32 b0 b1 b2 b3 > m
          · rw [D_cons4_long m b0 b1 b2 b3 rest h1 h2] at hd
            cases hd
            rw [D_cons4_long m b0 b1 b2 b3 (rest ++ b) h1 h2]
            exact ⟨fun err he => (by cases he; rfl), fun hn => (by cases hn)⟩
          · by_cases h3 : rest.length < readBe32 b0 b1 b2 b3 - 4
            · rw [D_cons4_wait m b0 b1 b2 b3 rest h1 h2 h3] at hd
              cases hd
              exact ⟨fun err he => (by cases he), fun _ fs' r' e' h' => h'⟩
            · have hk : readBe32 b0 b1 b2 b3 - 4 ≤ rest.length := by omega
              have h3' : ¬ (rest ++ b).length < readBe32 b0 b1 b2 b3 - 4 := by
                simp only [List.length_append]; omega
              have hdrop : (rest ++ b).drop (readBe32 b0 b1 b2 b3 - 4) =
                  rest.drop (readBe32 b0 b1 b2 b3 - 4) ++ b := List.drop_append_of_le_length hk
              have htake : (rest ++ b).take (readBe32 b0 b1 b2 b3 - 4) =
                  rest.take (readBe32 b0 b1 b2 b3 - 4) := List.take_append_of_le_length hk
              have hlen : (rest.drop (readBe32 b0 b1 b2 b3 - 4)).length ≤ n := by
                simp only [List.length_cons, List.length_drop] at h ⊢; omega
              cases hd1 : D m (rest.drop (readBe32 b0 b1 b2 b3 - 4)) with
              | mk fs1 p1 =>
                cases p1 with
                | mk r1 e1 =>
                  rw [D_cons4_frame m b0 b1 b2 b3 rest h1 h2 h3 fs1 r1 e1 hd1] at hd
                  simp only [Prod.mk.injEq] at hd
                  obtain ⟨hfs, hr, he'⟩ := hd
                  subst hfs hr he'
                  obtain ⟨ie, io⟩ := ih (rest.drop (readBe32 b0 b1 b2 b3 - 4)) b fs1 r1 e1 hlen hd1
                  refine ⟨fun err he => ?_, fun hn fs' r' e' h' => ?_⟩
                  · have := ie err he
                    rw [← hdrop] at this
                    rw [D_cons4_frame m b0 b1 b2 b3 (rest ++ b) h1 h2 h3' fs1 (r1 ++ b) (some err) this, htake]
                  · have := io hn fs' r' e' h'
                    rw [← hdrop] at this
                    rw [D_cons4_frame m b0 b1 b2 b3 (rest ++ b) h1 h2 h3' (fs1 ++ fs') r' e' this, htake]
                    rfl

end Amqp.Frame

namespace Amqp.Frame
open Amqp.Gen.FrameK

/-- decoding one well-formed length-prefixed chunk followed by anything -/
theorem D_prefixed (m : Nat) (c rest : Bytes) (hc : c.length + 4 ≤ m) (hbig : c.length + 4 < 4294967296)
    (fs : List Bytes) (r : Bytes) (e : Option DecErr) (hd : D m rest = (fs, r, e)) :
    D m (prefixed c ++ rest) = (c :: fs, r, e) := by
  have hl : readBe32 (UInt8.ofNat ((c.length + 4) / 16777216 % 256)) (UInt8.ofNat ((c.length + 4) / 65536 % 256))
      (UInt8.ofNat ((c.length + 4) / 256 % 256)) (UInt8.ofNat ((c.length + 4) % 256)) = c.length + 4 :=
    readBe32_be32 _ hbig
  have e1 : prefixed c ++ rest =
      UInt8.ofNat ((c.length + 4) / 16777216 % 256) :: UInt8.ofNat ((c.length + 4) / 65536 % 256) ::
      UInt8.ofNat ((c.length + 4) / 256 % 256) :: UInt8.ofNat ((c.length + 4) % 256) :: (c ++ rest) := rfl
  have hdrop : (c ++ rest).drop (c.length + 4 - 4) = rest := by simp
  have htake : (c ++ rest).take (c.length + 4 - 4) = c := by simp
  rw [e1]
  have := D_cons4_frame m _ _ _ _ (c ++ rest) (by rw [hl]; omega) (by rw [hl]; omega)
    (by rw [hl]; simp) fs r e (by rw [hl, hdrop]; exact hd)
  rw [this, hl, htake]

/-- decoding a whole sequence of well-formed chunks -/
theorem D_wire (m : Nat) : ∀ (cs : List Bytes), (∀ c ∈ cs, c.length + 4 ≤ m ∧ c.length + 4 < 4294967296) →
    D m (cs.map prefixed).flatten = (cs, [], none) := by
  intro cs
  induction cs with
  | nil => intro _; exact D_short m [] (by simp)
  | cons c cs ih =>
    intro h
    obtain ⟨h1, h2⟩ := h c (by simp)
    simp only [List.map_cons, List.flatten_cons]
    exact D_prefixed m c _ h1 h2 cs [] none (ih (fun c' hc' => h c' (by simp [hc'])))

/-- `feed` in terms of `D` -/
theorem feed_ok (m : Nat) (st : DecSt) (chunk : Bytes) (h : st.failed = none) :
    feed m st chunk = ({ buf := (D m (st.buf ++ chunk)).2.1, failed := (D m (st.buf ++ chunk)).2.2 },
                        (D m (st.buf ++ chunk)).1) := by
  simp only [feed, h, D]

theorem feed_failed (m : Nat) (st : DecSt) (chunk : Bytes) (e : DecErr) (h : st.failed = some e) :
    feed m st chunk = (st, []) := by
  simp only [feed, h]

end Amqp.Frame

namespace Amqp.Frame
open Amqp.Gen.FrameK

/-- the buffer of a live decoder state holds no complete frame -/
def Drained (m : Nat) (st : DecSt) : Prop := st.failed = none → D m st.buf = ([], st.buf, none)

theorem D_idem (m : Nat) (a : Bytes) (fs : List Bytes) (r : Bytes) (h : D m a = (fs, r, none)) :
    D m r = ([], r, none) := by
  cases hr : D m r with
  | mk fs' p =>
    cases p with
    | mk r' e' =>
      have h2 := (D_append m a.length a [] fs r none (Nat.le_refl _) h).2 rfl fs' r' e'
        (by rw [List.append_nil]; exact hr)
      rw [List.append_nil, h] at h2
      simp only [Prod.mk.injEq] at h2
      obtain ⟨h3, h4, h5⟩ := h2
      have : fs' = [] := by
        have := congrArg List.length h3
        simp only [List.length_append] at this
        exact List.length_eq_zero_iff.mp (by omega)
      subst this
      rw [← h4, ← h5]

theorem feed_drained (m : Nat) (st : DecSt) (c : Bytes) (h : Drained m st) : Drained m (feed m st c).1 := by
  cases hf : st.failed with
  | some e => rw [feed_failed m st c e hf]; exact h
  | none =>
    rw [feed_ok m st c hf]
    intro hn
    cases hd : D m (st.buf ++ c) with
    | mk fs p =>
      cases p with
      | mk r e =>
        rw [hd] at hn
        simp only at hn
        subst hn
        exact D_idem m _ fs r hd

/-- feeding `a` then `b` is feeding `a ++ b`: same frames, same failure, same buffer while alive -/
theorem feed_feed (m : Nat) (st : DecSt) (a b : Bytes) :
    (feed m st a).2 ++ (feed m (feed m st a).1 b).2 = (feed m st (a ++ b)).2 ∧
    (feed m (feed m st a).1 b).1.failed = (feed m st (a ++ b)).1.failed ∧
    ((feed m st (a ++ b)).1.failed = none →
        (feed m (feed m st a).1 b).1.buf = (feed m st (a ++ b)).1.buf) := by
  cases hf : st.failed with
  | some e =>
    rw [feed_failed m st a e hf, feed_failed m st b e hf, feed_failed m st (a ++ b) e hf]
    exact ⟨rfl, rfl, fun _ => rfl⟩
  | none =>
    rw [feed_ok m st a hf, feed_ok m st (a ++ b) hf]
    cases hd : D m (st.buf ++ a) with
    | mk fs p =>
      cases p with
      | mk r e =>
        have happ := D_append m (st.buf ++ a).length (st.buf ++ a) b fs r e (Nat.le_refl _) hd
        rw [List.append_assoc] at happ
        cases e with
        | some err =>
          rw [happ.1 err rfl]
          rw [feed_failed m _ b err rfl]
          exact ⟨by simp, rfl, fun hn => by cases hn⟩
        | none =>
          rw [feed_ok m _ b rfl]
          cases hd2 : D m (r ++ b) with
          | mk fs' p' =>
            cases p' with
            | mk r' e' =>
              rw [happ.2 rfl fs' r' e' hd2]
              exact ⟨rfl, rfl, fun _ => rfl⟩

theorem feedAll_flatten (m : Nat) : ∀ (cs : List Bytes) (st : DecSt), Drained m st →
    (feedAll m st cs).2 = (feed m st cs.flatten).2 ∧
    (feedAll m st cs).1.failed = (feed m st cs.flatten).1.failed ∧
    ((feed m st cs.flatten).1.failed = none → (feedAll m st cs).1.buf = (feed m st cs.flatten).1.buf) := by
  intro cs
  induction cs with
  | nil =>
    intro st hdr
    simp only [feedAll, List.flatten_nil]
    cases hf : st.failed with
    | some e => rw [feed_failed m st [] e hf]; exact ⟨rfl, hf.symm ▸ rfl, fun _ => rfl⟩
    | none =>
      rw [feed_ok m st [] hf, List.append_nil, hdr hf]
      exact ⟨rfl, rfl, fun _ => rfl⟩
  | cons c cs ih =>
    intro st hdr
    obtain ⟨i1, i2, i3⟩ := ih (feed m st c).1 (feed_drained m st c hdr)
    obtain ⟨f1, f2, f3⟩ := feed_feed m st c cs.flatten
    show (feed m st c).2 ++ (feedAll m (feed m st c).1 cs).2 = _ ∧
      (feedAll m (feed m st c).1 cs).1.failed = _ ∧ (_ → (feedAll m (feed m st c).1 cs).1.buf = _)
    simp only [List.flatten_cons]
    refine ⟨by rw [i1, f1], by rw [i2, f2], fun hn => ?_⟩
    rw [i3 (by rw [f2]; exact hn), f3 hn]

end Amqp.Frame
