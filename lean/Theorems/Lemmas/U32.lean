import Amqp.U32

namespace Amqp

theorem wadd32_lt (a b : Nat) : wadd32 a b < 4294967296 := by
  unfold wadd32; omega

theorem wsub32_spec (a b : Nat) :
    wsub32 a b = (a % 4294967296 + 4294967296 - b % 4294967296) % 4294967296 := by
  unfold wsub32; split <;> omega

theorem wsub32_lt (a b : Nat) : wsub32 a b < 4294967296 := by
  rw [wsub32_spec]; omega

theorem sdist_self (a : Nat) (h : a < 4294967296) : sdist a a = 0 := by
  unfold sdist; rw [wsub32_spec]; omega

/-- advancing the target by one advances the distance by one, unless it wraps -/
theorem sdist_succ (a b : Nat) (ha : a < 4294967296) (hb : b < 4294967296)
    (h : sdist a b + 1 < 4294967296) : sdist a (wadd32 b 1) = sdist a b + 1 := by
  simp only [sdist, wsub32_spec, wadd32] at *; omega

end Amqp
