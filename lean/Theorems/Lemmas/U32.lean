import Amqp.U32

namespace Amqp

theorem wadd32_lt (a b : Nat) : wadd32 a b < 4294967296 := by
  unfold wadd32; omega

theorem wsub32_lt (a b : Nat) : wsub32 a b < 4294967296 := by
  unfold wsub32; omega

theorem sdist_self (a : Nat) (h : a < 4294967296) : sdist a a = 0 := by
  unfold sdist wsub32; omega

/-- advancing the target by one advances the distance by one, unless it wraps -/
theorem sdist_succ (a b : Nat) (ha : a < 4294967296) (hb : b < 4294967296)
    (h : sdist a b + 1 < 4294967296) : sdist a (wadd32 b 1) = sdist a b + 1 := by
  unfold sdist wsub32 wadd32 at *; omega

end Amqp
