import Amqp.Settle

namespace Amqp.Settle
open Amqp Amqp.Gen.Settle

/-! ### tables -/

theorem mem_removeId (byId : List Entry) (id : Nat) (e : Entry) :
    e ∈ removeId byId id ↔ e ∈ byId ∧ e.id ≠ id := by
  simp [removeId]

theorem mem_removeTag (u : List (Nat × Nat)) (lt x : Nat × Nat) :
    x ∈ removeTag u lt ↔ x ∈ u ∧ x ≠ lt := by
  simp [removeTag]

theorem lookup_some_mem (byId : List Entry) (id : Nat) (e : Entry) (h : lookup byId id = some e) :
    e ∈ byId ∧ e.id = id := by
  unfold lookup at h
  exact ⟨List.mem_of_find?_eq_some h, by simpa using List.find?_some h⟩

theorem lookup_removeId_self (byId : List Entry) (id : Nat) : lookup (removeId byId id) id = none := by
  simp [lookup, removeId, List.find?_eq_none]

theorem lookup_removeId_ne (byId : List Entry) (id id' : Nat) (h : id' ≠ id) :
    lookup (removeId byId id) id' = lookup byId id' := by
  unfold lookup removeId
  induction byId with
  | nil => rfl
  | cons e es ih =>
    by_cases he : e.id = id
    · have h1 : (e.id == id') = false := by simp; omega
      have h2 : (!(e.id == id)) = false := by simp [he]
      rw [List.filter_cons, h2, List.find?_cons, h1]
      simpa using ih
    · have h2 : (!(e.id == id)) = true := by simp [he]
      rw [List.filter_cons, h2]
      simp only [if_true, List.find?_cons]
      by_cases he' : e.id = id'
      · simp [he']
      · have h1 : (e.id == id') = false := by simp [he']
        rw [h1]; simpa using ih

/-- ids are unique in the table -/
def IdsNodup (byId : List Entry) : Prop := (byId.map (·.id)).Nodup

theorem lookup_of_mem (byId : List Entry) (e : Entry) (hn : IdsNodup byId) (h : e ∈ byId) :
    lookup byId e.id = some e := by
  unfold lookup IdsNodup at *
  induction byId with
  | nil => simp at h
  | cons x xs ih =>
    simp only [List.map_cons, List.nodup_cons] at hn
    rcases List.mem_cons.mp h with rfl | hm
    · simp [List.find?_cons]
    · have hne : x.id ≠ e.id := by
        intro heq
        exact hn.1 (heq ▸ List.mem_map_of_mem hm)
      simp [List.find?_cons, hne, ih hn.2 hm]

theorem idsNodup_removeId (byId : List Entry) (id : Nat) (h : IdsNodup byId) : IdsNodup (removeId byId id) := by
  unfold IdsNodup removeId at *
  exact List.Nodup.sublist (List.Sublist.map _ List.filter_sublist) h

end Amqp.Settle

namespace Amqp.Settle

/-! ### `settleIds` (settled disposition) -/

theorem settleIds_nil (st : DS) (s : St) : settleIds st [] s = (s, []) := rfl

theorem settleIds_cons_none (st : DS) (id : Nat) (ids : List Nat) (s : St) (h : lookup s.byId id = none) :
    settleIds st (id :: ids) s = settleIds st ids s := by
  simp [settleIds, h]

theorem settleIds_cons_held (st : DS) (id : Nat) (ids : List Nat) (s : St) (e : Entry)
    (h : lookup s.byId id = some e) (hh : s.unsettled.contains (e.link, e.tag) = true) :
    settleIds st (id :: ids) s =
      ((settleIds st ids { s with byId := removeId s.byId id, unsettled := removeTag s.unsettled (e.link, e.tag) }).1,
       .resolved e.link e.tag st ::
        (settleIds st ids { s with byId := removeId s.byId id, unsettled := removeTag s.unsettled (e.link, e.tag) }).2) := by
  rw [settleIds]; simp only [h]; rw [if_pos hh]

theorem settleIds_cons_unheld (st : DS) (id : Nat) (ids : List Nat) (s : St) (e : Entry)
    (h : lookup s.byId id = some e) (hh : s.unsettled.contains (e.link, e.tag) = false) :
    settleIds st (id :: ids) s = settleIds st ids { s with byId := removeId s.byId id } := by
  rw [settleIds]; simp only [h]; rw [if_neg (by rw [hh]; simp)]

/-- the tables only shrink -/
theorem settleIds_sub (st : DS) : ∀ (ids : List Nat) (s : St),
    (∀ e ∈ (settleIds st ids s).1.byId, e ∈ s.byId) ∧
    (∀ x ∈ (settleIds st ids s).1.unsettled, x ∈ s.unsettled) ∧
    (settleIds st ids s).1.second = s.second := by
  intro ids
  induction ids with
  | nil => intro s; simp [settleIds_nil]
  | cons id ids ih =>
    intro s
    cases h : lookup s.byId id with
    | none => rw [settleIds_cons_none st id ids s h]; exact ih s
    | some e =>
      cases hh : s.unsettled.contains (e.link, e.tag) with
      | true =>
        rw [settleIds_cons_held st id ids s e h hh]
        obtain ⟨a, b, c⟩ := ih { s with byId := removeId s.byId id, unsettled := removeTag s.unsettled (e.link, e.tag) }
        exact ⟨fun x hx => ((mem_removeId _ _ _).mp (a x hx)).1, fun x hx => ((mem_removeTag _ _ _).mp (b x hx)).1, c⟩
      | false =>
        rw [settleIds_cons_unheld st id ids s e h hh]
        obtain ⟨a, b, c⟩ := ih { s with byId := removeId s.byId id }
        exact ⟨fun x hx => ((mem_removeId _ _ _).mp (a x hx)).1, b, c⟩

/-- **own outcome**: whatever completes, completes with the state of this disposition, was
    held, and belongs to an entry whose delivery-id the disposition names -/
theorem settleIds_resolved (st : DS) : ∀ (ids : List Nat) (s : St) (o : Out), o ∈ (settleIds st ids s).2 →
    ∃ e, o = .resolved e.link e.tag st ∧ e ∈ s.byId ∧ e.id ∈ ids ∧ (e.link, e.tag) ∈ s.unsettled := by
  intro ids
  induction ids with
  | nil => intro s o h; simp [settleIds_nil] at h
  | cons id ids ih =>
    intro s o ho
    cases h : lookup s.byId id with
    | none =>
      rw [settleIds_cons_none st id ids s h] at ho
      obtain ⟨e, h1, h2, h3, h4⟩ := ih s o ho
      exact ⟨e, h1, h2, List.mem_cons_of_mem _ h3, h4⟩
    | some e =>
      obtain ⟨hm, hid⟩ := lookup_some_mem _ _ _ h
      cases hh : s.unsettled.contains (e.link, e.tag) with
      | true =>
        rw [settleIds_cons_held st id ids s e h hh] at ho
        rcases List.mem_cons.mp ho with rfl | ho'
        · exact ⟨e, rfl, hm, by simp [hid], by simpa using hh⟩
        · obtain ⟨e', h1, h2, h3, h4⟩ := ih _ o ho'
          exact ⟨e', h1, ((mem_removeId _ _ _).mp h2).1, List.mem_cons_of_mem _ h3, ((mem_removeTag _ _ _).mp h4).1⟩
      | false =>
        rw [settleIds_cons_unheld st id ids s e h hh] at ho
        obtain ⟨e', h1, h2, h3, h4⟩ := ih _ o ho
        exact ⟨e', h1, ((mem_removeId _ _ _).mp h2).1, List.mem_cons_of_mem _ h3, h4⟩

/-- the entries named are forgotten by the session -/
theorem settleIds_gone (st : DS) : ∀ (ids : List Nat) (s : St) (id : Nat), id ∈ ids →
    lookup (settleIds st ids s).1.byId id = none := by
  intro ids
  induction ids with
  | nil => intro s id h; simp at h
  | cons x xs ih =>
    intro s id hid
    have key : ∀ (s' : St), lookup s'.byId id = none → lookup (settleIds st xs s').1.byId id = none := by
      intro s' hn
      by_cases hx : id ∈ xs
      · exact ih s' id hx
      · cases hl : lookup (settleIds st xs s').1.byId id with
        | none => rfl
        | some e =>
          have hm := (lookup_some_mem _ _ _ hl)
          have := (settleIds_sub st xs s').1 e hm.1
          unfold lookup at hn
          have := List.find?_eq_none.mp hn e this
          simp [hm.2] at this
    rcases List.mem_cons.mp hid with rfl | hx
    · cases h : lookup s.byId id with
      | none => rw [settleIds_cons_none st id xs s h]; exact key s h
      | some e =>
        cases hh : s.unsettled.contains (e.link, e.tag) with
        | true => rw [settleIds_cons_held st id xs s e h hh]; exact key _ (lookup_removeId_self _ _)
        | false => rw [settleIds_cons_unheld st id xs s e h hh]; exact key _ (lookup_removeId_self _ _)
    · cases h : lookup s.byId x with
      | none => rw [settleIds_cons_none st x xs s h]; exact ih s id hx
      | some e =>
        cases hh : s.unsettled.contains (e.link, e.tag) with
        | true => rw [settleIds_cons_held st x xs s e h hh]; exact ih _ id hx
        | false => rw [settleIds_cons_unheld st x xs s e h hh]; exact ih _ id hx

/-- … and by the link: its unsettled map no longer holds them -/
theorem settleIds_unheld (st : DS) : ∀ (ids : List Nat) (s : St) (id : Nat) (e : Entry), id ∈ ids →
    lookup s.byId id = some e → (e.link, e.tag) ∉ (settleIds st ids s).1.unsettled := by
  intro ids
  induction ids with
  | nil => intro s id e h; simp at h
  | cons x xs ih =>
    intro s id e hid hl
    by_cases hxe : x = id
    · subst hxe
      cases hh : s.unsettled.contains (e.link, e.tag) with
      | true =>
        rw [settleIds_cons_held st x xs s e hl hh]
        intro hin
        have := (settleIds_sub st xs _).2.1 _ hin
        exact ((mem_removeTag _ _ _).mp this).2 rfl
      | false =>
        rw [settleIds_cons_unheld st x xs s e hl hh]
        intro hin
        have := (settleIds_sub st xs _).2.1 _ hin
        simp at hh
        exact hh this
    · have hx : id ∈ xs := by
        rcases List.mem_cons.mp hid with h | h
        · exact absurd h.symm hxe
        · exact h
      cases h : lookup s.byId x with
      | none => rw [settleIds_cons_none st x xs s h]; exact ih s id e hx hl
      | some e' =>
        have hl' : lookup (removeId s.byId x) id = some e := by
          rw [lookup_removeId_ne _ _ _ (Ne.symm hxe)]; exact hl
        cases hh : s.unsettled.contains (e'.link, e'.tag) with
        | true => rw [settleIds_cons_held st x xs s e' h hh]; exact ih _ id e hx hl'
        | false => rw [settleIds_cons_unheld st x xs s e' h hh]; exact ih _ id e hx hl'

end Amqp.Settle

namespace Amqp.Settle

/-- different deliveries have different (link, tag) -/
def TagsInj (byId : List Entry) : Prop :=
  ∀ e ∈ byId, ∀ e' ∈ byId, e.link = e'.link → e.tag = e'.tag → e = e'

theorem tagsInj_removeId (byId : List Entry) (id : Nat) (h : TagsInj byId) : TagsInj (removeId byId id) := by
  intro e he e' he' h1 h2
  exact h e ((mem_removeId _ _ _).mp he).1 e' ((mem_removeId _ _ _).mp he').1 h1 h2

def isRes (l t : Nat) : Out → Bool
  | .resolved l' t' _ => l' == l && t' == t
  | _ => false

/-- how often the send future of (l, t) completes in a list of outputs -/
def countRes (l t : Nat) (os : List Out) : Nat := (os.filter (isRes l t)).length

theorem countRes_nil (l t : Nat) : countRes l t [] = 0 := rfl

theorem countRes_append (l t : Nat) (a b : List Out) : countRes l t (a ++ b) = countRes l t a + countRes l t b := by
  simp [countRes, List.filter_append]

theorem countRes_cons (l t : Nat) (o : Out) (os : List Out) :
    countRes l t (o :: os) = (if isRes l t o then 1 else 0) + countRes l t os := by
  unfold countRes
  rw [List.filter_cons]
  split <;> simp <;> omega

theorem countRes_pos_mem (l t : Nat) (os : List Out) (h : 0 < countRes l t os) :
    ∃ st, Out.resolved l t st ∈ os := by
  unfold countRes at h
  obtain ⟨o, ho⟩ := List.exists_mem_of_length_pos h
  obtain ⟨hm, hp⟩ := List.mem_filter.mp ho
  cases o with
  | resolved l' t' st => simp [isRes] at hp; exact ⟨st, by rw [← hp.1, ← hp.2]; exact hm⟩
  | echo _ _ _ => simp [isRes] at hp

/-- is (l, t) held by its link? as a number -/
def heldN (s : St) (l t : Nat) : Nat := if (l, t) ∈ s.unsettled then 1 else 0

/-- **at most once** within one settled disposition: a completion uses up the held entry -/
theorem settleIds_count (st : DS) (l t : Nat) : ∀ (ids : List Nat) (s : St),
    countRes l t (settleIds st ids s).2 + heldN (settleIds st ids s).1 l t ≤ heldN s l t := by
  intro ids
  induction ids with
  | nil => intro s; simp [settleIds_nil, countRes_nil]
  | cons id ids ih =>
    intro s
    cases h : lookup s.byId id with
    | none => rw [settleIds_cons_none st id ids s h]; exact ih s
    | some e =>
      cases hh : s.unsettled.contains (e.link, e.tag) with
      | true =>
        rw [settleIds_cons_held st id ids s e h hh, countRes_cons]
        have hmem : (e.link, e.tag) ∈ s.unsettled := by simpa using hh
        have ih' := ih { s with byId := removeId s.byId id, unsettled := removeTag s.unsettled (e.link, e.tag) }
        by_cases heq : e.link = l ∧ e.tag = t
        · obtain ⟨rfl, rfl⟩ := heq
          have hnot : (e.link, e.tag) ∉ removeTag s.unsettled (e.link, e.tag) := fun hx => ((mem_removeTag _ _ _).mp hx).2 rfl
          have h0 : heldN { s with byId := removeId s.byId id, unsettled := removeTag s.unsettled (e.link, e.tag) } e.link e.tag = 0 := by
            simp [heldN, hnot]
          have h1 : heldN s e.link e.tag = 1 := by simp [heldN, hmem]
          simp only [isRes, beq_self_eq_true, Bool.and_self, if_true]
          omega
        · have hne : isRes l t (.resolved e.link e.tag st) = false := by
            simp [isRes]; intro h1 h2; exact heq ⟨h1, h2⟩
          rw [hne]
          simp only [Bool.false_eq_true, if_false, Nat.zero_add]
          refine Nat.le_trans ih' ?_
          unfold heldN
          by_cases hm : (l, t) ∈ removeTag s.unsettled (e.link, e.tag)
          · simp [hm, ((mem_removeTag _ _ _).mp hm).1]
          · simp [hm]
      | false =>
        rw [settleIds_cons_unheld st id ids s e h hh]
        exact ih { s with byId := removeId s.byId id }

/-- **liveness**: a held delivery whose id the disposition names completes -/
theorem settleIds_live (st : DS) : ∀ (ids : List Nat) (s : St) (id : Nat) (e : Entry),
    TagsInj s.byId → id ∈ ids → lookup s.byId id = some e → (e.link, e.tag) ∈ s.unsettled →
    Out.resolved e.link e.tag st ∈ (settleIds st ids s).2 := by
  intro ids
  induction ids with
  | nil => intro s id e _ h; simp at h
  | cons x xs ih =>
    intro s id e hinj hid hl hheld
    by_cases hxe : x = id
    · subst hxe
      have hh : s.unsettled.contains (e.link, e.tag) = true := by simpa using hheld
      rw [settleIds_cons_held st x xs s e hl hh]
      exact List.mem_cons_self
    · have hx : id ∈ xs := by
        rcases List.mem_cons.mp hid with h | h
        · exact absurd h.symm hxe
        · exact h
      cases h : lookup s.byId x with
      | none => rw [settleIds_cons_none st x xs s h]; exact ih s id e hinj hx hl hheld
      | some e' =>
        have hl' : lookup (removeId s.byId x) id = some e := by
          rw [lookup_removeId_ne _ _ _ (Ne.symm hxe)]; exact hl
        have hm := lookup_some_mem _ _ _ hl
        have hm' := lookup_some_mem _ _ _ h
        have hne : (e.link, e.tag) ≠ (e'.link, e'.tag) := by
          intro heq
          simp only [Prod.mk.injEq] at heq
          have := hinj e hm.1 e' hm'.1 heq.1 heq.2
          rw [this] at hm
          exact hxe (hm'.2.symm.trans hm.2)
        cases hh : s.unsettled.contains (e'.link, e'.tag) with
        | true =>
          rw [settleIds_cons_held st x xs s e' h hh]
          refine List.mem_cons_of_mem _ (ih _ id e (tagsInj_removeId _ _ hinj) hx hl' ?_)
          exact (mem_removeTag _ _ _).mpr ⟨hheld, hne⟩
        | false =>
          rw [settleIds_cons_unheld st x xs s e' h hh]
          exact ih _ id e (tagsInj_removeId _ _ hinj) hx hl' hheld

end Amqp.Settle

namespace Amqp.Settle

/-! ### `updOne` / `updateIds` (unsettled disposition) -/

theorem terminal_not_inProgress (st : DS) (h : st.terminal = true) : st.inProgress = false := by
  cases st <;> simp_all [DS.terminal, DS.inProgress]

theorem inProgress_or_terminal (st : DS) : st.inProgress = true ∨ st.terminal = true := by
  cases st <;> simp [DS.terminal, DS.inProgress]

theorem updOne_sub (st : DS) (s : St) (id : Nat) (e : Entry) :
    (∀ x ∈ (updOne st s id e).1.byId, x ∈ s.byId) ∧
    (∀ x ∈ (updOne st s id e).1.unsettled, x ∈ s.unsettled) ∧
    (updOne st s id e).1.second = s.second := by
  unfold updOne
  refine ⟨?_, ?_, ?_⟩
  · intro x hx
    by_cases h1 : (st.terminal && s.unsettled.contains (e.link, e.tag)) = true <;>
    by_cases h2 : (isSecond s e.link && !st.inProgress) = true <;>
    simp only [h1, h2, if_true, if_false, Bool.false_eq_true] at hx
    · exact ((mem_removeId _ _ _).mp hx).1
    · exact hx
    · exact ((mem_removeId _ _ _).mp hx).1
    · exact hx
  · intro x hx
    by_cases h1 : (st.terminal && s.unsettled.contains (e.link, e.tag)) = true <;>
    by_cases h2 : (isSecond s e.link && !st.inProgress) = true <;>
    simp only [h1, h2, if_true, if_false, Bool.false_eq_true] at hx
    · exact ((mem_removeTag _ _ _).mp hx).1
    · exact ((mem_removeTag _ _ _).mp hx).1
    · exact hx
    · exact hx
  · by_cases h1 : (st.terminal && s.unsettled.contains (e.link, e.tag)) = true <;>
    by_cases h2 : (isSecond s e.link && !st.inProgress) = true <;>
    simp only [h1, h2, if_true, if_false, Bool.false_eq_true]

/-- what one delivery emits: nothing, or its own completion with this disposition's
    (terminal) state, and then the link no longer holds it -/
theorem updOne_out (st : DS) (s : St) (id : Nat) (e : Entry) :
    ((updOne st s id e).2.1 = [] ∧
        (st.terminal = false ∨ (e.link, e.tag) ∉ s.unsettled) ∧
        (∀ x, x ∈ (updOne st s id e).1.unsettled ↔ x ∈ s.unsettled)) ∨
    ((updOne st s id e).2.1 = [.resolved e.link e.tag st] ∧ st.terminal = true ∧ (e.link, e.tag) ∈ s.unsettled ∧
        (∀ x, x ∈ (updOne st s id e).1.unsettled ↔ x ∈ s.unsettled ∧ x ≠ (e.link, e.tag))) := by
  unfold updOne
  by_cases h1 : (st.terminal && s.unsettled.contains (e.link, e.tag)) = true
  · right
    have ht : st.terminal = true := by simp at h1; exact h1.1
    have hm : (e.link, e.tag) ∈ s.unsettled := by simp at h1; exact h1.2
    refine ⟨by simp only [h1, if_true], ht, hm, ?_⟩
    intro x
    by_cases h2 : (isSecond s e.link && !st.inProgress) = true <;>
    simp only [h1, h2, if_true, if_false, Bool.false_eq_true] <;> exact mem_removeTag _ _ _
  · left
    refine ⟨by simp only [h1, if_false, Bool.false_eq_true], ?_, ?_⟩
    · by_cases ht : st.terminal = true
      · right; simp [ht] at h1; exact h1
      · left; simpa using ht
    · intro x
      by_cases h2 : (isSecond s e.link && !st.inProgress) = true <;>
      simp only [h1, h2, if_true, if_false, Bool.false_eq_true]

theorem updOne_echo (st : DS) (s : St) (id : Nat) (e : Entry) :
    (updOne st s id e).2.2 = (isSecond s e.link && !st.inProgress) := by
  simp [updOne]

theorem updOne_byId (st : DS) (s : St) (id : Nat) (e : Entry) :
    (updOne st s id e).1.byId = if (updOne st s id e).2.2 then removeId s.byId id else s.byId := by
  unfold updOne
  by_cases h1 : (st.terminal && s.unsettled.contains (e.link, e.tag)) = true <;>
  by_cases h2 : (isSecond s e.link && !st.inProgress) = true <;>
  simp only [h1, h2, if_true, if_false, Bool.false_eq_true]

theorem updateIds_nil (st : DS) (s : St) (runs : List (Nat × Nat)) : updateIds st [] s runs = (s, [], runs) := rfl

theorem updateIds_cons_none (st : DS) (id : Nat) (ids : List Nat) (s : St) (runs : List (Nat × Nat))
    (h : lookup s.byId id = none) : updateIds st (id :: ids) s runs = updateIds st ids s runs := by
  simp [updateIds, h]

theorem updateIds_cons_some (st : DS) (id : Nat) (ids : List Nat) (s : St) (runs : List (Nat × Nat)) (e : Entry)
    (h : lookup s.byId id = some e) :
    updateIds st (id :: ids) s runs =
      ((updateIds st ids (updOne st s id e).1 (if (updOne st s id e).2.2 then pushRun runs id else runs)).1,
       (updOne st s id e).2.1 ++
        (updateIds st ids (updOne st s id e).1 (if (updOne st s id e).2.2 then pushRun runs id else runs)).2.1,
       (updateIds st ids (updOne st s id e).1 (if (updOne st s id e).2.2 then pushRun runs id else runs)).2.2) := by
  rw [updateIds]; simp only [h]

theorem updateIds_sub (st : DS) : ∀ (ids : List Nat) (s : St) (runs : List (Nat × Nat)),
    (∀ e ∈ (updateIds st ids s runs).1.byId, e ∈ s.byId) ∧
    (∀ x ∈ (updateIds st ids s runs).1.unsettled, x ∈ s.unsettled) ∧
    (updateIds st ids s runs).1.second = s.second := by
  intro ids
  induction ids with
  | nil => intro s runs; simp [updateIds_nil]
  | cons id ids ih =>
    intro s runs
    cases h : lookup s.byId id with
    | none => rw [updateIds_cons_none st id ids s runs h]; exact ih s runs
    | some e =>
      rw [updateIds_cons_some st id ids s runs e h]
      obtain ⟨a, b, c⟩ := ih (updOne st s id e).1 (if (updOne st s id e).2.2 then pushRun runs id else runs)
      obtain ⟨a', b', c'⟩ := updOne_sub st s id e
      exact ⟨fun x hx => a' x (a x hx), fun x hx => b' x (b x hx), c.trans c'⟩

/-- **own outcome** (unsettled disposition) -/
theorem updateIds_resolved (st : DS) : ∀ (ids : List Nat) (s : St) (runs : List (Nat × Nat)) (o : Out),
    o ∈ (updateIds st ids s runs).2.1 →
    ∃ e, o = .resolved e.link e.tag st ∧ st.terminal = true ∧ e ∈ s.byId ∧ e.id ∈ ids ∧ (e.link, e.tag) ∈ s.unsettled := by
  intro ids
  induction ids with
  | nil => intro s runs o h; simp [updateIds_nil] at h
  | cons id ids ih =>
    intro s runs o ho
    cases h : lookup s.byId id with
    | none =>
      rw [updateIds_cons_none st id ids s runs h] at ho
      obtain ⟨e, h1, h2, h3, h4, h5⟩ := ih s runs o ho
      exact ⟨e, h1, h2, h3, List.mem_cons_of_mem _ h4, h5⟩
    | some e =>
      obtain ⟨hm, hid⟩ := lookup_some_mem _ _ _ h
      rw [updateIds_cons_some st id ids s runs e h] at ho
      simp only [List.mem_append] at ho
      rcases ho with ho | ho
      · rcases updOne_out st s id e with ⟨h0, _⟩ | ⟨h0, ht, hheld, _⟩
        · rw [h0] at ho; simp at ho
        · rw [h0] at ho
          simp only [List.mem_singleton] at ho
          exact ⟨e, ho, ht, hm, by simp [hid], hheld⟩
      · obtain ⟨e', h1, h2, h3, h4, h5⟩ := ih _ _ o ho
        obtain ⟨a', b', _⟩ := updOne_sub st s id e
        exact ⟨e', h1, h2, a' _ h3, List.mem_cons_of_mem _ h4, b' _ h5⟩

/-- **at most once** within one unsettled disposition: a completion uses up the held entry -/
theorem updateIds_count (st : DS) (l t : Nat) : ∀ (ids : List Nat) (s : St) (runs : List (Nat × Nat)),
    countRes l t (updateIds st ids s runs).2.1 + heldN (updateIds st ids s runs).1 l t ≤ heldN s l t := by
  intro ids
  induction ids with
  | nil => intro s runs; simp [updateIds_nil, countRes_nil]
  | cons id ids ih =>
    intro s runs
    cases h : lookup s.byId id with
    | none => rw [updateIds_cons_none st id ids s runs h]; exact ih s runs
    | some e =>
      rw [updateIds_cons_some st id ids s runs e h, countRes_append]
      have ih' := ih (updOne st s id e).1 (if (updOne st s id e).2.2 then pushRun runs id else runs)
      simp only
      rcases updOne_out st s id e with ⟨h0, _, hu⟩ | ⟨h0, _, hheld, hu⟩
      · rw [h0, countRes_nil, Nat.zero_add]
        refine Nat.le_trans ih' ?_
        unfold heldN
        by_cases hm : (l, t) ∈ (updOne st s id e).1.unsettled
        · simp [hm, (hu _).mp hm]
        · simp [hm]
      · rw [h0]
        by_cases heq : e.link = l ∧ e.tag = t
        · obtain ⟨rfl, rfl⟩ := heq
          have hnot : (e.link, e.tag) ∉ (updOne st s id e).1.unsettled := fun hx => ((hu _).mp hx).2 rfl
          have h00 : heldN (updOne st s id e).1 e.link e.tag = 0 := by simp [heldN, hnot]
          have h1 : heldN s e.link e.tag = 1 := by simp [heldN, hheld]
          simp only [countRes_cons, countRes_nil, isRes, beq_self_eq_true, Bool.and_self, if_true]
          omega
        · have hne : isRes l t (.resolved e.link e.tag st) = false := by
            simp [isRes]; intro h1 h2; exact heq ⟨h1, h2⟩
          simp only [countRes_cons, countRes_nil, hne, Bool.false_eq_true, if_false, Nat.zero_add, Nat.add_zero]
          refine Nat.le_trans ih' ?_
          unfold heldN
          by_cases hm : (l, t) ∈ (updOne st s id e).1.unsettled
          · simp [hm, ((hu _).mp hm).1]
          · simp [hm]

end Amqp.Settle
