import Theorems.Lemmas.Codec

/-! Invariants of the decoder on *arbitrary* input (C04): every value it returns
    is nested no deeper than the depth it was given, and what it leaves is a
    suffix of what it got (it consumes a prefix, never reads past or invents input). -/
namespace Amqp.Codec
open Amqp.Gen.Codes

def IsSuffix (a b : Bytes) : Prop := ∃ pre, b = pre ++ a

theorem IsSuffix.refl (a : Bytes) : IsSuffix a a := ⟨[], rfl⟩
theorem IsSuffix.trans {a b c : Bytes} (h1 : IsSuffix a b) (h2 : IsSuffix b c) : IsSuffix a c := by
  obtain ⟨p, rfl⟩ := h1; obtain ⟨q, rfl⟩ := h2; exact ⟨q ++ p, by simp⟩
theorem IsSuffix.cons (b : UInt8) (r : Bytes) : IsSuffix r (b :: r) := ⟨[b], rfl⟩

theorem next?_suffix (bs : Bytes) (b : UInt8) (r : Bytes) (h : next? bs = .ok (b, r)) : IsSuffix r bs := by
  cases bs with
  | nil => simp [next?] at h
  | cons x xs => simp [next?] at h; obtain ⟨rfl, rfl⟩ := h; exact IsSuffix.cons _ _

theorem take?_suffix (n : Nat) (bs a r : Bytes) (h : take? n bs = .ok (a, r)) : IsSuffix r bs := by
  unfold take? at h
  split at h
  · simp at h
  · simp at h; obtain ⟨rfl, rfl⟩ := h; exact ⟨bs.take n, (List.take_append_drop n bs).symm⟩

theorem codeOrRead_suffix (ec : Option Nat) (bs : Bytes) (c : Nat) (r : Bytes)
    (h : codeOrRead ec bs = .ok (c, r)) : IsSuffix r bs := by
  unfold codeOrRead at h
  cases ec with
  | some x => simp at h; obtain ⟨_, rfl⟩ := h; exact IsSuffix.refl _
  | none =>
    cases bs with
    | nil => simp at h
    | cons b t =>
      simp only at h
      split at h
      · simp at h; obtain ⟨_, rfl⟩ := h; exact IsSuffix.cons _ _
      · simp at h

end Amqp.Codec

namespace Amqp.Codec
open Amqp.Gen.Codes

theorem nestAll_flattenPairs_insert (acc : List (Value × Value)) (k v : Value) :
    nestAll (flattenPairs (mapInsert acc k v)) ≤ max (nestAll (flattenPairs acc)) (max (nest k) (nest v)) := by
  induction acc with
  | nil => simp [mapInsert, flattenPairs, nestAll]
  | cons p rest ih =>
    obtain ⟨k', v'⟩ := p
    simp only [mapInsert]
    split
    · simp only [flattenPairs, nestAll]; omega
    · simp only [flattenPairs, nestAll] at ih ⊢; omega

theorem nestAll_insertAll : ∀ (vs : List Value) (acc : List (Value × Value)),
    nestAll (flattenPairs (insertAll acc vs)) ≤ max (nestAll (flattenPairs acc)) (nestAll vs)
  | [], acc => by simp [insertAll, nestAll]
  | [x], acc => by simp [insertAll, nestAll]; omega
  | k :: v :: rest, acc => by
    have h1 := nestAll_insertAll rest (mapInsert acc k v)
    have h2 := nestAll_flattenPairs_insert acc k v
    simp only [insertAll, nestAll] at h1 ⊢
    omega

end Amqp.Codec
