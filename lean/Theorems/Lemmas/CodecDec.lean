import Theorems.Lemmas.Codec

/-! Invariants of the decoder on *arbitrary* input (C04): every value it returns
    is nested no deeper than the depth it was given, and what it leaves is a
    suffix of what it got (it consumes a prefix, never reads past or invents input). -/
namespace Amqp.Codec
open Amqp.Gen.Codes

def IsSuffix (a b : Bytes) : Prop := ∃ pre, b = pre ++ a

theorem IsSuffix.refl (a : Bytes) : IsSuffix a a := ⟨[], rfl⟩
theorem IsSuffix.trans {a b c : Bytes} (h1 : IsSuffix a b) (h2 : IsSuffix b c) : IsSuffix a c := by
  obtain ⟨p, rfl⟩ := h1; obtain ⟨q, rfl⟩ := h2; exact ⟨q ++ p, by simp⟩
theorem IsSuffix.cons (b : UInt8) (r : Bytes) : IsSuffix r (b :: r) := ⟨[b], rfl⟩

theorem next?_suffix (bs : Bytes) (b : UInt8) (r : Bytes) (h : next? bs = .ok (b, r)) : IsSuffix r bs := by
  cases bs with
  | nil => simp [next?] at h
  | cons x xs => simp [next?] at h; obtain ⟨rfl, rfl⟩ := h; exact IsSuffix.cons _ _

theorem take?_suffix (n : Nat) (bs a r : Bytes) (h : take? n bs = .ok (a, r)) : IsSuffix r bs := by
  unfold take? at h
  split at h
  · simp at h
  · simp at h; obtain ⟨rfl, rfl⟩ := h; exact ⟨bs.take n, (List.take_append_drop n bs).symm⟩

theorem codeOrRead_suffix (ec : Option Nat) (bs : Bytes) (c : Nat) (r : Bytes)
    (h : codeOrRead ec bs = .ok (c, r)) : IsSuffix r bs := by
  unfold codeOrRead at h
  cases ec with
  | some x => simp at h; obtain ⟨_, rfl⟩ := h; exact IsSuffix.refl _
  | none =>
    cases bs with
    | nil => simp at h
    | cons b t =>
      simp only at h
      split at h
      · simp at h; obtain ⟨_, rfl⟩ := h; exact IsSuffix.cons _ _
      · simp at h

end Amqp.Codec

namespace Amqp.Codec
open Amqp.Gen.Codes

theorem nestAll_flattenPairs_insert (acc : List (Value × Value)) (k v : Value) :
    nestAll (flattenPairs (mapInsert acc k v)) ≤ max (nestAll (flattenPairs acc)) (max (nest k) (nest v)) := by
  induction acc with
  | nil => simp [mapInsert, flattenPairs, nestAll]
  | cons p rest ih =>
    obtain ⟨k', v'⟩ := p
    simp only [mapInsert]
    split
    · simp only [flattenPairs, nestAll]; omega
    · simp only [flattenPairs, nestAll] at ih ⊢; omega

theorem nestAll_insertAll : ∀ (vs : List Value) (acc : List (Value × Value)),
    nestAll (flattenPairs (insertAll acc vs)) ≤ max (nestAll (flattenPairs acc)) (nestAll vs)
  | [], acc => by simp [insertAll, nestAll]
  | [x], acc => by simp [insertAll, nestAll]; omega
  | k :: v :: rest, acc => by
    have h1 := nestAll_insertAll rest (mapInsert acc k v)
    have h2 := nestAll_flattenPairs_insert acc k v
    simp only [insertAll, nestAll] at h1 ⊢
    omega

end Amqp.Codec

/-! ## the invariant of the decoder on arbitrary input -/
namespace Amqp.Codec
open Amqp.Gen.Codes

mutual
  /-- what a value occupies: one unit per node plus its payload bytes -/
  def mass : Value → Nat
    | .null => 1
    | .bool _ => 1
    | .fixed _ bs => 1 + bs.length
    | .var _ bs => 1 + bs.length
    | .list vs => 1 + massAll vs
    | .map vs => 1 + massAll vs
    | .array vs => 1 + massAll vs
    | .described d v => 1 + mass d + mass v
  def massAll : List Value → Nat
    | [] => 0
    | v :: vs => mass v + massAll vs
end

theorem bind_ok {α β : Type} {x : Res α} {f : α → Res β} {b : β} (h : (x >>= f) = .ok b) :
    ∃ a, x = .ok a ∧ f a = .ok b := by
  cases x with
  | error e => simp [bind, Except.bind] at h
  | ok a => exact ⟨a, rfl, h⟩

theorem IsSuffix.len {a b : Bytes} (h : IsSuffix a b) : a.length ≤ b.length := by
  obtain ⟨p, rfl⟩ := h; simp

theorem next?_len (bs : Bytes) (b : UInt8) (r : Bytes) (h : next? bs = .ok (b, r)) : r.length + 1 = bs.length := by
  cases bs with
  | nil => simp [next?] at h
  | cons x xs => simp [next?] at h; obtain ⟨rfl, rfl⟩ := h; simp

theorem take?_len (n : Nat) (bs a r : Bytes) (h : take? n bs = .ok (a, r)) :
    a.length = n ∧ r.length + n = bs.length := by
  unfold take? at h
  split at h
  · simp at h
  · simp at h; obtain ⟨rfl, rfl⟩ := h; simp; omega

/-- the scalar step: what is left is a suffix, the value is a leaf, and its mass is paid for by
    the bytes consumed — or, for a constructor without a body, by one unit of slack -/
theorem decScalar_inv (c : Nat) (r : Bytes) (v : Value) (r' : Bytes)
    (h : decScalar c r = some (.ok (v, r'))) :
    IsSuffix r' r ∧ nest v = 0 ∧
    mass v + 17 * r'.length ≤ 17 * (r.length + (if zeroWidth c then 1 else 0)) := by
  unfold decScalar at h
  by_cases hc : c = cNull
  · rw [if_pos hc] at h; simp at h; obtain ⟨rfl, rfl⟩ := h
    simp [IsSuffix.refl, nest, mass, zeroWidth, hc]; omega
  rw [if_neg hc] at h
  by_cases hc1 : c = cBooleanTrue
  · rw [if_pos hc1] at h; simp at h; obtain ⟨rfl, rfl⟩ := h
    simp [IsSuffix.refl, nest, mass, zeroWidth, hc1]; omega
  rw [if_neg hc1] at h
  by_cases hc2 : c = cBooleanFalse
  · rw [if_pos hc2] at h; simp at h; obtain ⟨rfl, rfl⟩ := h
    simp [IsSuffix.refl, nest, mass, zeroWidth, hc2]; omega
  rw [if_neg hc2] at h
  by_cases hc3 : c = cBoolean
  · rw [if_pos hc3] at h
    simp only [Option.some.injEq] at h
    obtain ⟨⟨b, r1⟩, h1, h⟩ := bind_ok h
    have hl := next?_len _ _ _ h1
    have hs := next?_suffix _ _ _ h1
    simp only at h
    by_cases hb0 : b = 0
    · rw [if_pos hb0] at h; simp [pure, Except.pure] at h; obtain ⟨rfl, rfl⟩ := h
      refine ⟨hs, by simp [nest], ?_⟩; simp [mass]; omega
    rw [if_neg hb0] at h
    by_cases hb1 : b = 1
    · rw [if_pos hb1] at h; simp [pure, Except.pure] at h; obtain ⟨rfl, rfl⟩ := h
      refine ⟨hs, by simp [nest], ?_⟩; simp [mass]; omega
    rw [if_neg hb1] at h; simp at h
  rw [if_neg hc3] at h
  by_cases hc4 : c = cUint0
  · rw [if_pos hc4] at h; simp at h; obtain ⟨rfl, rfl⟩ := h
    simp [IsSuffix.refl, nest, mass, zeroWidth, hc4]; omega
  rw [if_neg hc4] at h
  by_cases hc5 : c = cUlong0
  · rw [if_pos hc5] at h; simp at h; obtain ⟨rfl, rfl⟩ := h
    simp [IsSuffix.refl, nest, mass, zeroWidth, hc5]; omega
  rw [if_neg hc5] at h
  by_cases hc6 : c = cSmallUint
  · rw [if_pos hc6] at h
    simp only [Option.some.injEq] at h
    obtain ⟨⟨b, r1⟩, h1, h⟩ := bind_ok h
    have hl := next?_len _ _ _ h1
    have hs := next?_suffix _ _ _ h1
    simp [pure, Except.pure] at h; obtain ⟨rfl, rfl⟩ := h
    refine ⟨hs, by simp [nest], ?_⟩; simp [mass]; omega
  rw [if_neg hc6] at h
  by_cases hc7 : c = cSmallUlong
  · rw [if_pos hc7] at h
    simp only [Option.some.injEq] at h
    obtain ⟨⟨b, r1⟩, h1, h⟩ := bind_ok h
    have hl := next?_len _ _ _ h1
    have hs := next?_suffix _ _ _ h1
    simp [pure, Except.pure] at h; obtain ⟨rfl, rfl⟩ := h
    refine ⟨hs, by simp [nest], ?_⟩; simp [mass]; omega
  rw [if_neg hc7] at h
  by_cases hc8 : c = cSmallInt
  · rw [if_pos hc8] at h
    simp only [Option.some.injEq] at h
    obtain ⟨⟨b, r1⟩, h1, h⟩ := bind_ok h
    have hl := next?_len _ _ _ h1
    have hs := next?_suffix _ _ _ h1
    simp [pure, Except.pure] at h; obtain ⟨rfl, rfl⟩ := h
    refine ⟨hs, by simp [nest], ?_⟩; simp [mass]; omega
  rw [if_neg hc8] at h
  by_cases hc9 : c = cSmallLong
  · rw [if_pos hc9] at h
    simp only [Option.some.injEq] at h
    obtain ⟨⟨b, r1⟩, h1, h⟩ := bind_ok h
    have hl := next?_len _ _ _ h1
    have hs := next?_suffix _ _ _ h1
    simp [pure, Except.pure] at h; obtain ⟨rfl, rfl⟩ := h
    refine ⟨hs, by simp [nest], ?_⟩; simp [mass]; omega
  rw [if_neg hc9] at h
  cases hk : kindOfCode c with
  | some k =>
    rw [hk] at h
    simp only [Option.some.injEq] at h
    obtain ⟨⟨pv, r1⟩, h1, h⟩ := bind_ok h
    have hl := take?_len _ _ _ _ h1
    have hs := take?_suffix _ _ _ _ h1
    have hw : 1 ≤ k.width ∧ k.width ≤ 16 := by cases k <;> decide
    simp only at h
    split at h
    · simp at h
    · simp [pure, Except.pure] at h; obtain ⟨rfl, rfl⟩ := h
      refine ⟨hs, by simp [nest], ?_⟩; simp [mass]; omega
  | none =>
    rw [hk] at h
    cases hv : varOfCode c with
    | none => rw [hv] at h; simp at h
    | some kw =>
      obtain ⟨k, wide⟩ := kw
      rw [hv] at h
      simp only [Option.some.injEq] at h
      obtain ⟨⟨len, r1⟩, h1, h⟩ := bind_ok h
      simp only at h
      obtain ⟨⟨pv, r2⟩, h2, h⟩ := bind_ok h
      have hl2 := take?_len _ _ _ _ h2
      have hs2 := take?_suffix _ _ _ _ h2
      have hs1 : IsSuffix r1 r ∧ r1.length + 1 ≤ r.length := by
        cases wide with
        | true =>
          simp only [if_true] at h1
          obtain ⟨⟨l, r0⟩, h0, h1⟩ := bind_ok h1
          simp [pure, Except.pure] at h1; obtain ⟨_, rfl⟩ := h1
          have := take?_len _ _ _ _ h0
          exact ⟨take?_suffix _ _ _ _ h0, by omega⟩
        | false =>
          simp only [Bool.false_eq_true, if_false] at h1
          obtain ⟨⟨l, r0⟩, h0, h1⟩ := bind_ok h1
          simp [pure, Except.pure] at h1; obtain ⟨_, rfl⟩ := h1
          have := next?_len _ _ _ h0
          exact ⟨next?_suffix _ _ _ h0, by omega⟩
      simp only at h
      split at h
      · simp at h
      · simp [pure, Except.pure] at h; obtain ⟨rfl, rfl⟩ := h
        refine ⟨IsSuffix.trans hs2 hs1.1, by simp [nest], ?_⟩; simp [mass]; omega

def slack (st : DSt) : Nat :=
  match st.ec with
  | some c => if zeroWidth c then 1 else 0
  | none => 0

/-- what one decoding step guarantees, on any input -/
structure StepInv (depth : Nat) (st : DSt) (v : Value) (s : DSt) : Prop where
  suffix : IsSuffix s.rest st.rest
  zw : s.zw ≤ st.zw
  nest : nest v ≤ depth
  mass : mass v + 17 * (s.rest.length + s.zw) ≤ 17 * (st.rest.length + st.zw + slack st)
  slack : slack s ≤ slack st

structure SeqInv (depth count : Nat) (st : DSt) (vs : List Value) (s : DSt) : Prop where
  suffix : IsSuffix s.rest st.rest
  zw : s.zw ≤ st.zw
  nest : nestAll vs ≤ depth
  mass : massAll vs + 17 * (s.rest.length + s.zw) ≤ 17 * (st.rest.length + st.zw + count * slack st)
  slack : slack s ≤ slack st
  len : vs.length = count

theorem hdr_inv (w : Bool) (r : Bytes) (p : Nat × Bytes)
    (h : (if w = true then do let x ← take? 4 r; pure (fromBe x.fst, x.snd)
          else do let x ← next? r; pure (x.fst.toNat, x.snd) : Res (Nat × Bytes)) = .ok p) :
    IsSuffix p.snd r ∧ p.snd.length + 1 ≤ r.length := by
  cases w with
  | true =>
    simp only [if_true] at h
    obtain ⟨x, h0, h1⟩ := bind_ok h
    simp [pure, Except.pure] at h1; subst h1
    have := take?_len _ _ _ _ h0
    exact ⟨take?_suffix _ _ _ _ h0, by simp; omega⟩
  | false =>
    simp only [Bool.false_eq_true, if_false] at h
    obtain ⟨x, h0, h1⟩ := bind_ok h
    simp [pure, Except.pure] at h1; subst h1
    have := next?_len _ _ _ h0
    exact ⟨next?_suffix _ _ _ h0, by simp; omega⟩

theorem codeOrPeek_inv (ec : Option Nat) (bs : Bytes) (c : Nat) (h : codeOrPeek ec bs = .ok c) :
    ec = some c ∨ (ec = none ∧ ∃ b r, bs = b :: r ∧ b.toNat = c) := by
  unfold codeOrPeek at h
  cases ec with
  | some x => simp at h; exact Or.inl (by rw [h])
  | none =>
    cases bs with
    | nil => simp at h
    | cons b t =>
      simp only at h
      split at h
      · simp at h; exact Or.inr ⟨rfl, b, t, rfl, h⟩
      · simp at h

theorem codeOrRead_inv (ec : Option Nat) (bs : Bytes) (p : Nat × Bytes) (h : codeOrRead ec bs = .ok p) :
    (ec = some p.fst ∧ p.snd = bs) ∨ (ec = none ∧ ∃ b, bs = b :: p.snd ∧ b.toNat = p.fst) := by
  unfold codeOrRead at h
  cases ec with
  | some x => simp at h; subst h; exact Or.inl ⟨rfl, rfl⟩
  | none =>
    cases bs with
    | nil => simp at h
    | cons b t =>
      simp only at h
      split at h
      · simp at h; subst h; exact Or.inr ⟨rfl, b, rfl, rfl⟩
      · simp at h

macro "drop_if " h:ident " with " hx:ident " : " c:term : tactic =>
  `(tactic| (have $hx : ¬ $c := by
               intro hpos; rw [if_pos hpos] at $h:ident; simp at $h:ident
             rw [if_neg $hx] at $h:ident))

@[simp] theorem slack_mk_none (r : Bytes) (z : Nat) : slack { rest := r, ec := none, zw := z } = 0 := rfl

theorem slack_le_one (st : DSt) : slack st ≤ 1 := by
  unfold slack; split
  · split <;> omega
  · omega

theorem massAll_mapInsert (acc : List (Value × Value)) (k v : Value) :
    massAll (flattenPairs (mapInsert acc k v)) ≤ massAll (flattenPairs acc) + mass k + mass v := by
  induction acc with
  | nil => simp [mapInsert, flattenPairs, massAll]
  | cons p rest ih =>
    obtain ⟨k', v'⟩ := p
    simp only [mapInsert]
    split
    · simp only [flattenPairs, massAll]; omega
    · simp only [flattenPairs, massAll] at ih ⊢; omega

theorem massAll_insertAll : ∀ (vs : List Value) (acc : List (Value × Value)),
    massAll (flattenPairs (insertAll acc vs)) ≤ massAll (flattenPairs acc) + massAll vs
  | [], acc => by simp [insertAll, massAll]
  | [x], acc => by simp [insertAll, massAll]
  | k :: v :: rest, acc => by
    have h1 := massAll_insertAll rest (mapInsert acc k v)
    have h2 := massAll_mapInsert acc k v
    simp only [insertAll, massAll] at h1 ⊢
    omega

theorem dec_step (fuel : Nat)
    (ihN : ∀ depth count st vs s, decN fuel depth count st = .ok (vs, s) → SeqInv depth count st vs s)
    (ihA : ∀ depth count st a b vs s, decArr fuel depth count st a b = .ok (vs, s) → SeqInv depth count st vs s)
    (ihD : ∀ depth st v s, dec fuel depth st = .ok (v, s) → StepInv depth st v s)
    (depth : Nat) (st : DSt) (v : Value) (s : DSt) (h : dec (fuel + 1) depth st = .ok (v, s)) :
    StepInv depth st v s := by
  unfold dec at h
  dsimp only at h
  replace h := bind_ok h
  obtain ⟨c, hc, h⟩ := h
  have hpk := codeOrPeek_inv _ _ _ hc
  have hs1 := slack_le_one st
  by_cases hd : c = cDescribedType
  · rw [if_pos hd] at h
    drop_if h with hd0 : depth = 0
    rcases hpk with he | ⟨he, b, r, hr, hb⟩
    · rw [he] at h; dsimp only at h
      cases hrest : st.rest with
      | nil => rw [hrest] at h; simp at h
      | cons b t => rw [hrest] at h; dsimp only at h; split at h <;> simp at h
    · rw [he, hr] at h; dsimp only at h
      cases r with
      | nil => simp at h
      | cons dc tail =>
        dsimp only at h
        split at h
        · replace h := bind_ok h
          obtain ⟨x1, hx1, h⟩ := h
          have i1 := ihD _ _ _ _ hx1
          drop_if h with hemp : List.isEmpty x1.snd.rest = true
          replace h := bind_ok h
          obtain ⟨x2, hx2, h⟩ := h
          have i2 := ihD _ _ _ _ hx2
          simp [pure, Except.pure] at h
          obtain ⟨rfl, rfl⟩ := h
          have m1 := i1.mass; have m2 := i2.mass
          have sl1 := i1.slack; have sl2 := i2.slack
          have z1 := i1.zw; have z2 := i2.zw
          have n1 := i1.nest; have n2 := i2.nest
          have f1 := i1.suffix; have f2 := i2.suffix
          simp only [slack_mk_none] at m1 sl1
          dsimp only at f1 z1 m1
          refine ⟨?_, ?_, ?_, ?_, ?_⟩
          · rw [hr]; exact IsSuffix.trans f2 (IsSuffix.trans f1 (IsSuffix.cons _ _))
          · omega
          · simp only [nest]; omega
          · simp only [mass, hr, List.length_cons]; simp only [List.length_cons] at m1; omega
          · omega
        · split at h <;> simp at h
  rw [if_neg hd] at h
  by_cases hl0 : c = cList0
  · rw [if_pos hl0] at h
    replace h := bind_ok h
    obtain ⟨p, hp, h⟩ := h
    have hrd := codeOrRead_inv _ _ _ hp
    drop_if h with hd0 : depth = 0
    simp [pure, Except.pure] at h
    obtain ⟨rfl, rfl⟩ := h
    rcases hrd with ⟨he, hr⟩ | ⟨he, b, hr, hb⟩
    · have hsl : slack st = 1 := by
        rcases hpk with he' | ⟨he', _⟩
        · simp [slack, he', hl0, zeroWidth]
        · rw [he] at he'; simp at he'
      refine ⟨by rw [hr]; exact IsSuffix.refl _, Nat.le_refl _, by simp [nest, nestAll]; omega, ?_, by simp [slack]⟩
      simp [mass, massAll, hr]; omega
    · refine ⟨by rw [hr]; exact IsSuffix.cons _ _, Nat.le_refl _, by simp [nest, nestAll]; omega, ?_, by simp [slack]⟩
      simp [mass, massAll, hr]; omega
  rw [if_neg hl0] at h
  by_cases hl : c = cList8 ∨ c = cList32
  · rw [if_pos hl] at h
    replace h := bind_ok h
    obtain ⟨p, hp, h⟩ := h
    have hrd := codeOrRead_inv _ _ _ hp
    replace h := bind_ok h
    obtain ⟨q1, hq1, h⟩ := h
    replace h := bind_ok h
    obtain ⟨q2, hq2, h⟩ := h
    have h1 := hdr_inv _ _ _ hq1
    have h2 := hdr_inv _ _ _ hq2
    drop_if h with hx1 : (decide (c = cList32) && decide (q2.fst > MAX_ARRAY_COUNT)) = true
    drop_if h with hx2 : q1.fst < if decide (c = cList32) = true then OFFSET_LIST32 else OFFSET_LIST8
    drop_if h with hd0 : depth = 0
    replace h := bind_ok h
    obtain ⟨r, hr, h⟩ := h
    have hi := ihN _ _ _ _ _ hr
    simp [pure, Except.pure] at h
    obtain ⟨rfl, rfl⟩ := h
    have hps : IsSuffix p.snd st.rest ∧ p.snd.length ≤ st.rest.length := by
      rcases hrd with ⟨_, hr⟩ | ⟨_, b, hr, _⟩
      · rw [hr]; exact ⟨IsSuffix.refl _, Nat.le_refl _⟩
      · rw [hr]; exact ⟨IsSuffix.cons _ _, by simp⟩
    have m := hi.mass; have sl := hi.slack; have z := hi.zw; have n := hi.nest; have f := hi.suffix
    simp only [slack_mk_none] at m sl
    dsimp only at z f m
    refine ⟨IsSuffix.trans f (IsSuffix.trans h2.1 (IsSuffix.trans h1.1 hps.1)), z, by simp only [nest]; omega, ?_, by omega⟩
    simp only [mass]; omega
  rw [if_neg hl] at h
  by_cases hm : c = cMap8 ∨ c = cMap32
  · rw [if_pos hm] at h
    replace h := bind_ok h
    obtain ⟨p, hp, h⟩ := h
    have hrd := codeOrRead_inv _ _ _ hp
    replace h := bind_ok h
    obtain ⟨q1, hq1, h⟩ := h
    replace h := bind_ok h
    obtain ⟨q2, hq2, h⟩ := h
    have h1 := hdr_inv _ _ _ hq1
    have h2 := hdr_inv _ _ _ hq2
    drop_if h with hx1 : (decide (c = cMap32) && decide (q2.fst > MAX_ARRAY_COUNT)) = true
    drop_if h with hx2 : q1.fst < if decide (c = cMap32) = true then OFFSET_MAP32 else OFFSET_MAP8
    drop_if h with hx3 : q2.fst % 2 ≠ 0
    drop_if h with hd0 : depth = 0
    replace h := bind_ok h
    obtain ⟨r, hr, h⟩ := h
    have hi := ihN _ _ _ _ _ hr
    simp [pure, Except.pure] at h
    obtain ⟨rfl, rfl⟩ := h
    have hps : IsSuffix p.snd st.rest ∧ p.snd.length ≤ st.rest.length := by
      rcases hrd with ⟨_, hr⟩ | ⟨_, b, hr, _⟩
      · rw [hr]; exact ⟨IsSuffix.refl _, Nat.le_refl _⟩
      · rw [hr]; exact ⟨IsSuffix.cons _ _, by simp⟩
    have hnz : zeroWidth c = false := by rcases hm with rfl | rfl <;> decide
    have hsl : slack st = 0 := by
      rcases hpk with he | ⟨he, _⟩
      · simp [slack, he, hnz]
      · simp [slack, he]
    have e0 : slack ({ rest := q2.snd, ec := st.ec, zw := st.zw } : DSt) = 0 := hsl
    have m := hi.mass; have sl := hi.slack; have z := hi.zw; have n := hi.nest; have f := hi.suffix
    rw [e0] at m sl
    dsimp only at z f m
    have mm := massAll_insertAll r.fst []
    have nn := nestAll_insertAll r.fst []
    simp only [flattenPairs, massAll, nestAll] at mm nn
    refine ⟨IsSuffix.trans f (IsSuffix.trans h2.1 (IsSuffix.trans h1.1 hps.1)), z, by simp only [nest]; omega, ?_, by omega⟩
    simp only [mass]; omega
  rw [if_neg hm] at h
  by_cases ha : c = cArray8 ∨ c = cArray32
  · rw [if_pos ha] at h
    replace h := bind_ok h
    obtain ⟨p, hp, h⟩ := h
    have hrd := codeOrRead_inv _ _ _ hp
    replace h := bind_ok h
    obtain ⟨q1, hq1, h⟩ := h
    replace h := bind_ok h
    obtain ⟨q2, hq2, h⟩ := h
    have h1 := hdr_inv _ _ _ hq1
    have h2 := hdr_inv _ _ _ hq2
    have hps : IsSuffix p.snd st.rest ∧ p.snd.length ≤ st.rest.length := by
      rcases hrd with ⟨_, hr⟩ | ⟨_, b, hr, _⟩
      · rw [hr]; exact ⟨IsSuffix.refl _, Nat.le_refl _⟩
      · rw [hr]; exact ⟨IsSuffix.cons _ _, by simp⟩
    drop_if h with hx1 : q2.fst > MAX_ARRAY_COUNT ∨ q2.fst > q1.fst
    by_cases hz : q2.fst = 0
    · rw [if_pos hz] at h
      drop_if h with hd0 : depth = 0
      simp [pure, Except.pure] at h
      obtain ⟨rfl, rfl⟩ := h
      refine ⟨IsSuffix.trans h2.1 (IsSuffix.trans h1.1 hps.1), Nat.le_refl _, by simp [nest, nestAll]; omega, ?_, by simp⟩
      simp [mass, massAll]; omega
    rw [if_neg hz] at h
    replace h := bind_ok h
    obtain ⟨x3, hx3, h⟩ := h
    have h3l := next?_len _ _ _ hx3
    have h3s := next?_suffix _ _ _ hx3
    drop_if h with hx4 : (!isCode x3.fst.toNat) = true
    drop_if h with hx5 : (zeroWidth x3.fst.toNat && decide (st.zw < q2.fst)) = true
    drop_if h with hx6 : q1.fst < if decide (c = cArray32) = true then OFFSET_ARRAY32 else OFFSET_ARRAY8
    drop_if h with hd0 : depth = 0
    replace h := bind_ok h
    obtain ⟨r, hr, h⟩ := h
    have hi := ihA _ _ _ _ _ _ _ hr
    simp [pure, Except.pure] at h
    obtain ⟨rfl, rfl⟩ := h
    have m := hi.mass; have z := hi.zw; have n := hi.nest; have f := hi.suffix
    dsimp only at z f m
    refine ⟨IsSuffix.trans f (IsSuffix.trans h3s (IsSuffix.trans h2.1 (IsSuffix.trans h1.1 hps.1))), ?_, by simp only [nest]; omega, ?_, by simp⟩
    · show r.snd.zw ≤ st.zw
      cases hzw : zeroWidth x3.fst.toNat <;> simp [hzw] at z <;> omega
    · simp only [mass]
      cases hzw : zeroWidth x3.fst.toNat
      · simp [slack, hzw] at m; omega
      · simp [slack, hzw] at m hx5; omega
  rw [if_neg ha] at h
  replace h := bind_ok h
  obtain ⟨p, hp, h⟩ := h
  have hrd := codeOrRead_inv _ _ _ hp
  cases hds : decScalar p.fst p.snd with
  | none => rw [hds] at h; simp at h
  | some res =>
    rw [hds] at h; dsimp only at h
    replace h := bind_ok h
    obtain ⟨x, hx, h⟩ := h
    subst hx
    have hi := decScalar_inv _ _ x.fst x.snd hds
    simp [pure, Except.pure] at h
    obtain ⟨rfl, rfl⟩ := h
    obtain ⟨hf, hn, hm⟩ := hi
    rcases hrd with ⟨he, hr⟩ | ⟨he, b, hr, hb⟩
    · refine ⟨by rw [← hr]; exact hf, Nat.le_refl _, by omega, ?_, by simp [slack]⟩
      have : slack st = if zeroWidth p.fst then 1 else 0 := by simp [slack, he]
      rw [hr] at hm; (try dsimp only); omega
    · refine ⟨by rw [hr]; exact IsSuffix.trans hf (IsSuffix.cons _ _), Nat.le_refl _, by omega, ?_, by simp [slack]⟩
      have : (if zeroWidth p.fst then 1 else 0) ≤ 1 := by split <;> omega
      rw [hr]; simp only [List.length_cons]; (try dsimp only); omega

theorem decN_step (fuel : Nat)
    (ihN : ∀ depth count st vs s, decN fuel depth count st = .ok (vs, s) → SeqInv depth count st vs s)
    (ihD : ∀ depth st v s, dec fuel depth st = .ok (v, s) → StepInv depth st v s)
    (depth count : Nat) (st : DSt) (vs : List Value) (s : DSt) (h : decN (fuel + 1) depth count st = .ok (vs, s)) :
    SeqInv depth count st vs s := by
  unfold decN at h
  cases count with
  | zero =>
    simp [pure, Except.pure] at h
    obtain ⟨rfl, rfl⟩ := h
    exact ⟨IsSuffix.refl _, Nat.le_refl _, by simp [nestAll], by simp [massAll], Nat.le_refl _, rfl⟩
  | succ n =>
    dsimp only at h
    replace h := bind_ok h
    obtain ⟨x, hx, h⟩ := h
    replace h := bind_ok h
    obtain ⟨y, hy, h⟩ := h
    simp [pure, Except.pure] at h
    obtain ⟨rfl, rfl⟩ := h
    have i1 := ihD _ _ _ _ hx
    have i2 := ihN _ _ _ _ _ hy
    have m1 := i1.mass; have m2 := i2.mass
    have hmul : n * slack x.snd ≤ n * slack st := Nat.mul_le_mul_left n i1.slack
    have hs : (n + 1) * slack st = n * slack st + slack st := Nat.succ_mul n _
    refine ⟨IsSuffix.trans i2.suffix i1.suffix, Nat.le_trans i2.zw i1.zw, ?_, ?_, Nat.le_trans i2.slack i1.slack, by simp [i2.len]⟩
    · simp only [nestAll]; have := i1.nest; have := i2.nest; omega
    · simp only [massAll]; omega

theorem decArr_step (fuel : Nat)
    (ihA : ∀ depth count st a b vs s, decArr fuel depth count st a b = .ok (vs, s) → SeqInv depth count st vs s)
    (ihD : ∀ depth st v s, dec fuel depth st = .ok (v, s) → StepInv depth st v s)
    (depth count : Nat) (st : DSt) (a b : Nat) (vs : List Value) (s : DSt)
    (h : decArr (fuel + 1) depth count st a b = .ok (vs, s)) :
    SeqInv depth count st vs s := by
  unfold decArr at h
  cases count with
  | zero =>
    simp [pure, Except.pure] at h
    obtain ⟨rfl, rfl⟩ := h
    exact ⟨IsSuffix.refl _, Nat.le_refl _, by simp [nestAll], by simp [massAll], by simp, rfl⟩
  | succ n =>
    dsimp only at h
    replace h := bind_ok h
    obtain ⟨x, hx, h⟩ := h
    drop_if h with hsz : a - x.snd.rest.length > b
    replace h := bind_ok h
    obtain ⟨y, hy, h⟩ := h
    simp [pure, Except.pure] at h
    obtain ⟨rfl, rfl⟩ := h
    have i1 := ihD _ _ _ _ hx
    have i2 := ihA _ _ _ _ _ _ _ hy
    have m1 := i1.mass; have m2 := i2.mass
    have hmul : n * slack x.snd ≤ n * slack st := Nat.mul_le_mul_left n i1.slack
    have hs : (n + 1) * slack st = n * slack st + slack st := Nat.succ_mul n _
    refine ⟨IsSuffix.trans i2.suffix i1.suffix, Nat.le_trans i2.zw i1.zw, ?_, ?_, Nat.le_trans i2.slack i1.slack, by simp [i2.len]⟩
    · simp only [nestAll]; have := i1.nest; have := i2.nest; omega
    · simp only [massAll]; omega

theorem dec_inv : ∀ (fuel : Nat),
    (∀ depth st v s, dec fuel depth st = .ok (v, s) → StepInv depth st v s) ∧
    (∀ depth count st vs s, decN fuel depth count st = .ok (vs, s) → SeqInv depth count st vs s) ∧
    (∀ depth count st a b vs s, decArr fuel depth count st a b = .ok (vs, s) → SeqInv depth count st vs s)
  | 0 => by
    refine ⟨?_, ?_, ?_⟩
    · intro depth st v s h; unfold dec at h; simp at h
    · intro depth count st vs s h; unfold decN at h; simp at h
    · intro depth count st a b vs s h; unfold decArr at h; simp at h
  | fuel + 1 => by
    obtain ⟨ihD, ihN, ihA⟩ := dec_inv fuel
    exact ⟨dec_step fuel ihN ihA ihD, decN_step fuel ihN ihD, decArr_step fuel ihA ihD⟩

end Amqp.Codec

/-! ## the model's recursion budget never runs out -/
namespace Amqp.Codec
open Amqp.Gen.Codes

theorem bind_err {α β : Type} {x : Res α} {f : α → Res β} {e : DErr} (h : (x >>= f) = .error e) :
    x = .error e ∨ ∃ a, x = .ok a ∧ f a = .error e := by
  cases x with
  | error e' => simp [bind, Except.bind] at h; exact Or.inl (by rw [h])
  | ok a => exact Or.inr ⟨a, rfl, h⟩

/-- fuel that `dec` needs at a given remaining depth: one level of at most `MAX_ARRAY_COUNT` entries per depth -/
def need (depth : Nat) : Nat := depth * (MAX_ARRAY_COUNT + 3) + 1

theorem next?_nofuel (bs : Bytes) : next? bs ≠ .error .fuel := by
  cases bs <;> simp [next?]
theorem take?_nofuel (n : Nat) (bs : Bytes) : take? n bs ≠ .error .fuel := by
  unfold take?; split <;> simp
theorem codeOrPeek_nofuel (ec : Option Nat) (bs : Bytes) : codeOrPeek ec bs ≠ .error .fuel := by
  unfold codeOrPeek
  cases ec with
  | some c => simp
  | none => cases bs with
    | nil => simp
    | cons b t => simp only; split <;> simp
theorem codeOrRead_nofuel (ec : Option Nat) (bs : Bytes) : codeOrRead ec bs ≠ .error .fuel := by
  unfold codeOrRead
  cases ec with
  | some c => simp
  | none => cases bs with
    | nil => simp
    | cons b t => simp only; split <;> simp

theorem hdr_nofuel (w : Bool) (r : Bytes) :
    (if w = true then do let x ← take? 4 r; pure (fromBe x.fst, x.snd)
     else do let x ← next? r; pure (x.fst.toNat, x.snd) : Res (Nat × Bytes)) ≠ .error .fuel := by
  intro h
  cases w with
  | true =>
    simp only [if_true] at h
    rcases bind_err h with h0 | ⟨a, _, h1⟩
    · exact take?_nofuel _ _ h0
    · simp [pure, Except.pure] at h1
  | false =>
    simp only [Bool.false_eq_true, if_false] at h
    rcases bind_err h with h0 | ⟨a, _, h1⟩
    · exact next?_nofuel _ h0
    · simp [pure, Except.pure] at h1

/-- the count a header step returns is below 256 for the one-byte form -/
theorem hdr_small (r : Bytes) (p : Nat × Bytes)
    (h : (do let x ← next? r; pure (x.fst.toNat, x.snd) : Res (Nat × Bytes)) = .ok p) : p.fst < 256 := by
  obtain ⟨x, h0, h1⟩ := bind_ok h
  simp [pure, Except.pure] at h1; subst h1
  exact x.fst.toNat_lt


theorem decScalar_nofuel (c : Nat) (r : Bytes) : decScalar c r ≠ some (.error .fuel) := by
  intro h
  unfold decScalar at h
  by_cases hc : c = cNull
  · rw [if_pos hc] at h; simp at h
  rw [if_neg hc] at h
  by_cases hc1 : c = cBooleanTrue
  · rw [if_pos hc1] at h; simp at h
  rw [if_neg hc1] at h
  by_cases hc2 : c = cBooleanFalse
  · rw [if_pos hc2] at h; simp at h
  rw [if_neg hc2] at h
  by_cases hc3 : c = cBoolean
  · rw [if_pos hc3] at h
    simp only [Option.some.injEq] at h
    rcases bind_err h with h0 | ⟨x, hx, h⟩
    · exact next?_nofuel _ h0
    try dsimp only at h
    split at h
    · simp [pure, Except.pure] at h
    · split at h <;> simp [pure, Except.pure] at h
  rw [if_neg hc3] at h
  by_cases hc4 : c = cUint0
  · rw [if_pos hc4] at h; simp at h
  rw [if_neg hc4] at h
  by_cases hc5 : c = cUlong0
  · rw [if_pos hc5] at h; simp at h
  rw [if_neg hc5] at h
  by_cases hc6 : c = cSmallUint
  · rw [if_pos hc6] at h
    simp only [Option.some.injEq] at h
    rcases bind_err h with h0 | ⟨x, hx, h⟩
    · exact next?_nofuel _ h0
    simp [pure, Except.pure] at h
  rw [if_neg hc6] at h
  by_cases hc7 : c = cSmallUlong
  · rw [if_pos hc7] at h
    simp only [Option.some.injEq] at h
    rcases bind_err h with h0 | ⟨x, hx, h⟩
    · exact next?_nofuel _ h0
    simp [pure, Except.pure] at h
  rw [if_neg hc7] at h
  by_cases hc8 : c = cSmallInt
  · rw [if_pos hc8] at h
    simp only [Option.some.injEq] at h
    rcases bind_err h with h0 | ⟨x, hx, h⟩
    · exact next?_nofuel _ h0
    simp [pure, Except.pure] at h
  rw [if_neg hc8] at h
  by_cases hc9 : c = cSmallLong
  · rw [if_pos hc9] at h
    simp only [Option.some.injEq] at h
    rcases bind_err h with h0 | ⟨x, hx, h⟩
    · exact next?_nofuel _ h0
    simp [pure, Except.pure] at h
  rw [if_neg hc9] at h
  cases hk : kindOfCode c with
  | some k =>
    rw [hk] at h
    simp only [Option.some.injEq] at h
    rcases bind_err h with h0 | ⟨x, hx, h⟩
    · exact take?_nofuel _ _ h0
    try dsimp only at h
    split at h <;> simp [pure, Except.pure] at h
  | none =>
    rw [hk] at h
    cases hv : varOfCode c with
    | none => rw [hv] at h; simp at h
    | some kw =>
      obtain ⟨k, wide⟩ := kw
      rw [hv] at h
      simp only [Option.some.injEq] at h
      rcases bind_err h with h0 | ⟨x, hx, h⟩
      · cases wide with
        | true =>
          simp only [if_true] at h0
          rcases bind_err h0 with h1 | ⟨y, _, h1⟩
          · exact take?_nofuel _ _ h1
          · simp [pure, Except.pure] at h1
        | false =>
          simp only [Bool.false_eq_true, if_false] at h0
          rcases bind_err h0 with h1 | ⟨y, _, h1⟩
          · exact next?_nofuel _ h1
          · simp [pure, Except.pure] at h1
      try dsimp only at h
      rcases bind_err h with h0 | ⟨y, hy, h⟩
      · exact take?_nofuel _ _ h0
      try dsimp only at h
      split at h <;> simp [pure, Except.pure] at h

theorem hdr_count_le (w : Bool) (r : Bytes) (p : Nat × Bytes)
    (h : (if w = true then do let x ← take? 4 r; pure (fromBe x.fst, x.snd)
          else do let x ← next? r; pure (x.fst.toNat, x.snd) : Res (Nat × Bytes)) = .ok p)
    (hg : ¬ (w && decide (p.fst > MAX_ARRAY_COUNT)) = true) : p.fst ≤ MAX_ARRAY_COUNT := by
  cases w with
  | true => simp at hg; exact hg
  | false =>
    simp only [Bool.false_eq_true, if_false] at h
    have := hdr_small _ _ h
    simp only [MAX_ARRAY_COUNT]; omega

theorem need_pred (depth : Nat) (h : depth ≠ 0) : need (depth - 1) + MAX_ARRAY_COUNT + 3 = need depth := by
  unfold need
  cases depth with
  | zero => exact absurd rfl h
  | succ d => simp only [Nat.add_sub_cancel, Nat.succ_mul]; omega

theorem dec_nofuel_step (fuel : Nat)
    (ihD : ∀ depth st, need depth ≤ fuel → dec fuel depth st ≠ .error .fuel)
    (ihN : ∀ depth count st, need depth + count ≤ fuel → decN fuel depth count st ≠ .error .fuel)
    (ihA : ∀ depth count st a b, need depth + count ≤ fuel → decArr fuel depth count st a b ≠ .error .fuel)
    (depth : Nat) (st : DSt) (hn : need depth ≤ fuel + 1) : dec (fuel + 1) depth st ≠ .error .fuel := by
  intro h
  unfold dec at h
  dsimp only at h
  rcases bind_err h with h0 | ⟨c, hc, h⟩
  · exact codeOrPeek_nofuel _ _ h0
  by_cases hd : c = cDescribedType
  · rw [if_pos hd] at h
    drop_if h with hd0 : depth = 0
    have hnp := need_pred depth hd0
    cases hec : st.ec with
    | some x =>
      rw [hec] at h; dsimp only at h
      cases hrest : st.rest with
      | nil => rw [hrest] at h; simp at h
      | cons b t => rw [hrest] at h; dsimp only at h; split at h <;> simp at h
    | none =>
      rw [hec] at h; dsimp only at h
      cases hrest : st.rest with
      | nil => rw [hrest] at h; simp at h
      | cons b r =>
        rw [hrest] at h; dsimp only at h
        cases r with
        | nil => simp at h
        | cons dc tail =>
          dsimp only at h
          split at h
          · rcases bind_err h with h0 | ⟨x1, hx1, h⟩
            · exact ihD _ _ (by omega) h0
            drop_if h with hemp : List.isEmpty x1.snd.rest = true
            rcases bind_err h with h0 | ⟨x2, hx2, h⟩
            · exact ihD _ _ (by omega) h0
            simp [pure, Except.pure] at h
          · split at h <;> simp at h
  rw [if_neg hd] at h
  by_cases hl0 : c = cList0
  · rw [if_pos hl0] at h
    rcases bind_err h with h0 | ⟨p, hp, h⟩
    · exact codeOrRead_nofuel _ _ h0
    drop_if h with hd0 : depth = 0
    simp [pure, Except.pure] at h
  rw [if_neg hl0] at h
  by_cases hl : c = cList8 ∨ c = cList32
  · rw [if_pos hl] at h
    rcases bind_err h with h0 | ⟨p, hp, h⟩
    · exact codeOrRead_nofuel _ _ h0
    rcases bind_err h with h0 | ⟨q1, hq1, h⟩
    · exact hdr_nofuel _ _ h0
    rcases bind_err h with h0 | ⟨q2, hq2, h⟩
    · exact hdr_nofuel _ _ h0
    drop_if h with hx1 : (decide (c = cList32) && decide (q2.fst > MAX_ARRAY_COUNT)) = true
    drop_if h with hx2 : q1.fst < if decide (c = cList32) = true then OFFSET_LIST32 else OFFSET_LIST8
    drop_if h with hd0 : depth = 0
    have hnp := need_pred depth hd0
    have hcnt := hdr_count_le _ _ _ hq2 hx1
    rcases bind_err h with h0 | ⟨r, hr, h⟩
    · exact ihN _ _ _ (by omega) h0
    simp [pure, Except.pure] at h
  rw [if_neg hl] at h
  by_cases hm : c = cMap8 ∨ c = cMap32
  · rw [if_pos hm] at h
    rcases bind_err h with h0 | ⟨p, hp, h⟩
    · exact codeOrRead_nofuel _ _ h0
    rcases bind_err h with h0 | ⟨q1, hq1, h⟩
    · exact hdr_nofuel _ _ h0
    rcases bind_err h with h0 | ⟨q2, hq2, h⟩
    · exact hdr_nofuel _ _ h0
    drop_if h with hx1 : (decide (c = cMap32) && decide (q2.fst > MAX_ARRAY_COUNT)) = true
    drop_if h with hx2 : q1.fst < if decide (c = cMap32) = true then OFFSET_MAP32 else OFFSET_MAP8
    drop_if h with hx3 : q2.fst % 2 ≠ 0
    drop_if h with hd0 : depth = 0
    have hnp := need_pred depth hd0
    have hcnt := hdr_count_le _ _ _ hq2 hx1
    rcases bind_err h with h0 | ⟨r, hr, h⟩
    · exact ihN _ _ _ (by omega) h0
    simp [pure, Except.pure] at h
  rw [if_neg hm] at h
  by_cases ha : c = cArray8 ∨ c = cArray32
  · rw [if_pos ha] at h
    rcases bind_err h with h0 | ⟨p, hp, h⟩
    · exact codeOrRead_nofuel _ _ h0
    rcases bind_err h with h0 | ⟨q1, hq1, h⟩
    · exact hdr_nofuel _ _ h0
    rcases bind_err h with h0 | ⟨q2, hq2, h⟩
    · exact hdr_nofuel _ _ h0
    drop_if h with hx1 : q2.fst > MAX_ARRAY_COUNT ∨ q2.fst > q1.fst
    by_cases hz : q2.fst = 0
    · rw [if_pos hz] at h
      drop_if h with hd0 : depth = 0
      simp [pure, Except.pure] at h
    rw [if_neg hz] at h
    rcases bind_err h with h0 | ⟨x3, hx3, h⟩
    · exact next?_nofuel _ h0
    drop_if h with hx4 : (!isCode x3.fst.toNat) = true
    drop_if h with hx5 : (zeroWidth x3.fst.toNat && decide (st.zw < q2.fst)) = true
    drop_if h with hx6 : q1.fst < if decide (c = cArray32) = true then OFFSET_ARRAY32 else OFFSET_ARRAY8
    drop_if h with hd0 : depth = 0
    have hnp := need_pred depth hd0
    rcases bind_err h with h0 | ⟨r, hr, h⟩
    · exact ihA _ _ _ _ _ (by omega) h0
    simp [pure, Except.pure] at h
  rw [if_neg ha] at h
  rcases bind_err h with h0 | ⟨p, hp, h⟩
  · exact codeOrRead_nofuel _ _ h0
  cases hds : decScalar p.fst p.snd with
  | none => rw [hds] at h; simp at h
  | some res =>
    rw [hds] at h; dsimp only at h
    rcases bind_err h with h0 | ⟨x, hx, h⟩
    · subst h0; exact decScalar_nofuel _ _ hds
    simp [pure, Except.pure] at h

theorem decN_nofuel_step (fuel : Nat)
    (ihD : ∀ depth st, need depth ≤ fuel → dec fuel depth st ≠ .error .fuel)
    (ihN : ∀ depth count st, need depth + count ≤ fuel → decN fuel depth count st ≠ .error .fuel)
    (depth count : Nat) (st : DSt) (hn : need depth + count ≤ fuel + 1) :
    decN (fuel + 1) depth count st ≠ .error .fuel := by
  intro h
  unfold decN at h
  cases count with
  | zero => simp [pure, Except.pure] at h
  | succ n =>
    dsimp only at h
    rcases bind_err h with h0 | ⟨x, hx, h⟩
    · exact ihD _ _ (by omega) h0
    rcases bind_err h with h0 | ⟨y, hy, h⟩
    · exact ihN _ _ _ (by omega) h0
    simp [pure, Except.pure] at h

theorem decArr_nofuel_step (fuel : Nat)
    (ihD : ∀ depth st, need depth ≤ fuel → dec fuel depth st ≠ .error .fuel)
    (ihA : ∀ depth count st a b, need depth + count ≤ fuel → decArr fuel depth count st a b ≠ .error .fuel)
    (depth count : Nat) (st : DSt) (a b : Nat) (hn : need depth + count ≤ fuel + 1) :
    decArr (fuel + 1) depth count st a b ≠ .error .fuel := by
  intro h
  unfold decArr at h
  cases count with
  | zero => simp [pure, Except.pure] at h
  | succ n =>
    dsimp only at h
    rcases bind_err h with h0 | ⟨x, hx, h⟩
    · exact ihD _ _ (by omega) h0
    drop_if h with hsz : a - x.snd.rest.length > b
    rcases bind_err h with h0 | ⟨y, hy, h⟩
    · exact ihA _ _ _ _ _ (by omega) h0
    simp [pure, Except.pure] at h

theorem need_pos (depth : Nat) : 1 ≤ need depth := by unfold need; omega

theorem dec_nofuel : ∀ (fuel : Nat),
    (∀ depth st, need depth ≤ fuel → dec fuel depth st ≠ .error .fuel) ∧
    (∀ depth count st, need depth + count ≤ fuel → decN fuel depth count st ≠ .error .fuel) ∧
    (∀ depth count st a b, need depth + count ≤ fuel → decArr fuel depth count st a b ≠ .error .fuel)
  | 0 => by
    refine ⟨?_, ?_, ?_⟩
    · intro depth st h; have := need_pos depth; omega
    · intro depth count st h; have := need_pos depth; omega
    · intro depth count st a b h; have := need_pos depth; omega
  | fuel + 1 => by
    obtain ⟨ihD, ihN, ihA⟩ := dec_nofuel fuel
    exact ⟨dec_nofuel_step fuel ihD ihN ihA, decN_nofuel_step fuel ihD ihN, decArr_nofuel_step fuel ihD ihA⟩

theorem need_le_decodeFuel (n : Nat) : need MAX_NESTING_DEPTH ≤ decodeFuel n := by
  simp only [need, decodeFuel, MAX_NESTING_DEPTH, MAX_ARRAY_COUNT]; omega

end Amqp.Codec
