import Theorems.Lemmas.Frame

namespace Amqp.Frame
open Amqp.Gen.FrameK

/-- pieces of the middle transfers are exactly `B - restLen` bytes, what is left fits the
    last one, and nothing is lost -/
theorem sMiddle_spec (B restLen : Nat) (hlt : restLen < B) : ∀ (fuel : Nat) (rest : Bytes), rest.length ≤ fuel →
    (∀ c ∈ (sMiddle B restLen fuel rest).1, c.length = B - restLen) ∧
    restLen + (sMiddle B restLen fuel rest).2.length ≤ B ∧
    (sMiddle B restLen fuel rest).1.flatten ++ (sMiddle B restLen fuel rest).2 = rest := by
  intro fuel
  induction fuel with
  | zero =>
    intro rest h
    have : rest = [] := List.length_eq_zero_iff.mp (by omega)
    subst this
    simp [sMiddle]; omega
  | succ fuel ih =>
    intro rest h
    unfold sMiddle
    by_cases hc : split_transfer.cond_while_0 B rest.length restLen = true
    · have hgt : restLen + rest.length > B := by simpa [split_transfer.cond_while_0] using hc
      simp only [hc, if_true, split_transfer.arg_split_to_1, psub64]
      have hk : B - restLen ≤ rest.length := by omega
      have hdrop : (rest.drop (B - restLen)).length ≤ fuel := by
        simp [List.length_drop]; omega
      obtain ⟨i1, i2, i3⟩ := ih (rest.drop (B - restLen)) hdrop
      refine ⟨?_, i2, ?_⟩
      · intro c hcm
        simp only [List.mem_cons] at hcm
        cases hcm with
        | inl h' => subst h'; simp [List.length_take]; omega
        | inr h' => exact i1 c h'
      · simp only [List.flatten_cons, List.append_assoc, i3, List.take_append_drop]
    · have hle : restLen + rest.length ≤ B := by
        simp [split_transfer.cond_while_0] at hc; omega
      simp [hc, hle]

/-- the performative length a piece is measured with -/
def SLens.of (l : SLens) : SKind → Nat
  | .whole => l.whole
  | .first => l.first
  | .cont => l.rest
  | .last => l.rest

def piecesPayload (ps : List (SKind × Bytes)) : Bytes := (ps.map (·.2)).flatten

/-- the cut happened (neither "fits as it is" nor "performative alone fills a frame") -/
def IsCut (B : Nat) (l : SLens) (payload : Bytes) : Prop :=
  split_transfer.cond_if_1 B payload.length l.whole = false ∧ split_transfer.cond_if_2 l.first B l.rest = false

theorem sessionSplit_cut (B : Nat) (l : SLens) (payload : Bytes) (h : IsCut B l payload) :
    sessionSplit B l payload =
      (SKind.first, payload.take (Nat.min (B - l.first) payload.length)) ::
        (sMiddle B l.rest payload.length (payload.drop (Nat.min (B - l.first) payload.length))).1.map (fun c => (SKind.cont, c)) ++
        [(SKind.last, (sMiddle B l.rest payload.length (payload.drop (Nat.min (B - l.first) payload.length))).2)] := by
  obtain ⟨h1, h2⟩ := h
  simp [sessionSplit, h1, h2, split_transfer.arg_split_to_0, psub64]

end Amqp.Frame
