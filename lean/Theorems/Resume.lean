/-
  C02 (resumed links) — what a sender does with each delivery it still holds unsettled when its link is
  resumed: the decision table of `resume_delivery` (link/resumption.rs), regenerated from the source
  (`Amqp.Gen.Resume`: for every pair of local and remote state, the first arm of the `match` that covers it),
  is the table of the standard (part 2 §2.6.13, the examples with delivery-tags 1–14).
-/
import Amqp.Gen.Resume

namespace Amqp.Resume
open Amqp.Gen.Resume

def states : List String := ["-", "Received", "Accepted", "Rejected", "Released", "Modified", "Declared", "TransactionalState"]

def terminal (s : String) : Bool := s == "Accepted" || s == "Rejected" || s == "Released" || s == "Modified"
def transactional (s : String) : Bool := s == "Declared" || s == "TransactionalState"

/-- the standard's examples, as a function of what the sender (local) and the receiver (remote) have
    recorded for the delivery; `-` = nothing recorded / no entry.  An entry of the receiver without a state
    reads as received(0, 0) (examples 4, 9, 14), which the source does before it looks at the pair. -/
def standard (l r : String) : String :=
  -- transactional states are outside the standard's table; the library gives the delivery up
  if transactional l || transactional r then "abort"
  else if l == "-" then
    (if r == "-" then "resend"                        -- 1
     else if r == "Received" then "resume"            -- 2, 4
     else "settle-with-remote-state")                 -- 3
  else if l == "Received" then
    (if r == "-" then "resend"                        -- 5
     else if r == "Received" then "resume+abort"      -- 6 (the sender's mark is not beyond the receiver's) / 7, 9
     else "settle-with-remote-state")                 -- 8
  else
    (if r == "-" then "settle"                        -- 10
     else if r == "Received" then "abort"             -- 11, 14
     else if l == r then "settle"                     -- 12
     else "restate")                                  -- 13

def expected : List (String × String × String) :=
  states.flatMap (fun l => states.map (fun r => (l, r, standard l r)))

/-- **resume_table_matches_standard (C02).** For every combination of what the two ends recorded, the
    sender resends, resumes, settles with the receiver's outcome, settles, restates its own outcome or
    gives the delivery up exactly as the standard's examples say — in particular a delivery both ends hold
    a terminal outcome for is settled when the outcomes agree and the SENDER's outcome is restated when they
    differ, and nothing is resent that the receiver has said it received in full. -/
theorem resume_table_matches_standard : table = expected := by decide +kernel

/-- a receiver's entry without a state is read as received(0, 0); and where both ends have a part of the
    message the delivery is resumed from the receiver's mark exactly when the sender's mark is not beyond it -/
theorem resume_source_facts :
    stateless_remote_entry_is_received_0_0 = true ∧ received_received_resumes_iff_local_le_remote = true := by decide

/-- the table is total: no pair of states is left without an arm -/
theorem resume_table_total : table.all (fun e => e.2.2 != "no-arm" && e.2.2 != "unknown") = true := by decide +kernel

end Amqp.Resume
