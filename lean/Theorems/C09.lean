/-
  C09 — Receiver link credit: accurate accounting, enforcement and replenishment.
-/
import Amqp.RecvCredit
import Amqp.Cancel
import Theorems.Lemmas.U32

namespace Amqp.RecvCredit
open Amqp Amqp.Gen.Credit Amqp.Gen.RecvCredit

/-! ### accounting -/

/-- what the receiver should report, read off the wire: the sender's
    delivery-count as last learnt (attach or flow), advanced by the deliveries
    that arrived since -/
structure Ghost where
  learnt : Nat
  since : Nat

def Ghost.dc (g : Ghost) : Nat := (g.learnt + g.since) % 4294967296

def ghostAfter (g : Ghost) : Op → Ghost
  | .inFlow (some d) _ => ⟨d, 0⟩
  | .arrive more aborted => if !more && !aborted then ⟨g.learnt, g.since + 1⟩ else g
  | _ => g

def Op.WF : Op → Prop
  | .inFlow (some d) _ => d < 4294967296
  | _ => True

def flowsOf : List Out → List (Nat × Nat)
  | [] => []
  | .flow dc c _ _ :: os => (dc, c) :: flowsOf os
  | _ :: os => flowsOf os

/-- the receiver's delivery-count plus the deliveries it has not yet consumed is
    what the wire says; the relay's counter equals the queue length -/
structure RInv (s : RSt) (g : Ghost) : Prop where
  pend : s.pending = s.queued
  acc : (s.dc + s.queued) % 4294967296 = g.dc

theorem step_inFlow_none (s : RSt) (echo : Bool) :
    step s (.inFlow none echo) = (s, if echo then [.flow s.dc s.lc s.drain false] else []) := by
  rfl

theorem step_inFlow_some (s : RSt) (d : Nat) (echo : Bool) :
    step s (.inFlow (some d) echo) =
      ({ s with dc := wsub32 d s.pending },
       if echo then [.flow (wsub32 d s.pending) s.lc s.drain false] else []) := by
  rfl

theorem step_arrive (s : RSt) (more aborted : Bool) :
    step s (.arrive more aborted) =
      if !more && !aborted then ({ s with queued := s.queued + 1, pending := s.pending + 1 }, [])
      else (s, []) := by
  cases more <;> cases aborted <;> rfl

theorem step_recv_empty (s : RSt) (hq : s.queued = 0) : step s .recv = (s, [.nothing]) := by
  simp [step, onRecv, hq]

theorem step_recv_limit (s : RSt) (hq : 0 < s.queued) (h : s.lc = 0) :
    step s .recv = (s, [.limitExceeded]) := by
  have hq' : ¬ s.queued = 0 := by omega
  simp [step, onRecv, receiver_consume.cond_if_0, h, hq']

theorem step_recv_ok (s : RSt) (hq : 0 < s.queued) (h : 0 < s.lc) :
    step s .recv =
      ({ s with dc := (s.dc + 1) % 4294967296, lc := s.lc - 1,
                queued := s.queued - 1, pending := s.pending - 1 }, [.delivered]) := by
  have hq' : ¬ s.queued = 0 := by omega
  have : ¬ s.lc < 1 := by omega
  simp [step, onRecv, receiver_consume.cond_if_0, this, receiver_consume.assign_delivery_count_0,
    receiver_consume.assign_link_credit_0, wadd32, ssub32, hq']

theorem step_dispose_topup (s : RSt) (n k : Nat) (hm : s.mode = .auto n) (hk : s.processed + k ≥ n / 2) :
    step s (.dispose k) =
      ({ s with processed := 0, lc := n, drain := false }, [.flow s.dc n false false]) := by
  simp [step, topUp, hm, update_credit_if_auto.cond_if_0, hk, sendFlow,
    get_link_flow.assign_link_credit_0, get_link_flow.assign_drain_0]

theorem step_dispose_quiet (s : RSt) (k : Nat)
    (h : s.mode = .manual ∨ ∃ n, s.mode = .auto n ∧ ¬ s.processed + k ≥ n / 2) :
    step s (.dispose k) = ({ s with processed := s.processed + k }, []) := by
  rcases h with h | ⟨n, hm, hk⟩
  · simp [step, topUp, h]
  · simp [step, topUp, hm, update_credit_if_auto.cond_if_0, hk]

theorem step_setCredit (s : RSt) (c : Nat) :
    step s (.setCredit c) =
      ({ s with processed := 0, lc := c, drain := false,
                mode := modeWith s.mode c },
       [.flow s.dc c false false]) := by
  rfl

theorem step_drain (s : RSt) :
    step s .drain = if s.drain then ({ s with processed := 0 }, [])
      else ({ s with processed := 0, drain := true }, [.flow s.dc s.lc true false]) := by
  by_cases hd : s.drain = true
  · simp [step, onDrain, hd]
  · simp [step, onDrain, hd, sendFlow, get_link_flow.assign_drain_0]

/-- one step keeps the accounting invariant, and every flow emitted reports the
    post-step delivery-count and the post-step credit -/
theorem step_reports (s : RSt) (g : Ghost) (op : Op) (h : RInv s g) (hwf : op.WF) :
    RInv (step s op).1 (ghostAfter g op) ∧
    ∀ p ∈ flowsOf (step s op).2, p = ((step s op).1.dc, (step s op).1.lc) := by
  obtain ⟨hp, ha⟩ := h
  cases op with
  | inFlow dc echo =>
    cases dc with
    | none =>
      rw [step_inFlow_none]
      refine ⟨⟨hp, ha⟩, ?_⟩
      cases echo <;> simp [flowsOf]
    | some d =>
      have hd : d < 4294967296 := hwf
      rw [step_inFlow_some]
      refine ⟨⟨hp, ?_⟩, ?_⟩
      · show (wsub32 d s.pending + s.queued) % 4294967296 = (d + 0) % 4294967296
        rw [wsub32_spec, hp]; omega
      · cases echo <;> simp [flowsOf]
  | arrive more aborted =>
    rw [step_arrive]
    by_cases hc : (!more && !aborted) = true
    · simp only [hc, if_true, ghostAfter]
      refine ⟨⟨by simp [hp], ?_⟩, by simp [flowsOf]⟩
      show (s.dc + (s.queued + 1)) % 4294967296 = (g.learnt + (g.since + 1)) % 4294967296
      simp only [Ghost.dc] at ha
      omega
    · simp only [hc, ghostAfter]
      exact ⟨⟨hp, ha⟩, by simp [flowsOf]⟩
  | recv =>
    by_cases hq : s.queued = 0
    · rw [step_recv_empty s hq]
      exact ⟨⟨hp, ha⟩, by simp [flowsOf]⟩
    · have hq' : 0 < s.queued := by omega
      by_cases hl : s.lc = 0
      · rw [step_recv_limit s hq' hl]
        exact ⟨⟨hp, ha⟩, by simp [flowsOf]⟩
      · rw [step_recv_ok s hq' (by omega)]
        refine ⟨⟨by simp [hp], ?_⟩, by simp [flowsOf]⟩
        show ((s.dc + 1) % 4294967296 + (s.queued - 1)) % 4294967296 = g.dc
        simp only [Ghost.dc] at ha ⊢
        omega
  | dispose k =>
    by_cases ht : ∃ n, s.mode = .auto n ∧ s.processed + k ≥ n / 2
    · obtain ⟨n, hm, hk⟩ := ht
      rw [step_dispose_topup s n k hm hk]
      exact ⟨⟨hp, ha⟩, by simp [flowsOf]⟩
    · have : s.mode = .manual ∨ ∃ n, s.mode = .auto n ∧ ¬ s.processed + k ≥ n / 2 := by
        cases hm : s.mode with
        | manual => exact Or.inl rfl
        | auto n => exact Or.inr ⟨n, rfl, fun hk => ht ⟨n, hm, hk⟩⟩
      rw [step_dispose_quiet s k this]
      exact ⟨⟨hp, ha⟩, by simp [flowsOf]⟩
  | setCredit c =>
    rw [step_setCredit]
    exact ⟨⟨hp, ha⟩, by simp [flowsOf]⟩
  | drain =>
    rw [step_drain]
    by_cases hd : s.drain = true
    · simp only [hd, if_true]
      exact ⟨⟨hp, ha⟩, by simp [flowsOf]⟩
    · simp only [hd]
      exact ⟨⟨hp, ha⟩, by simp [flowsOf]⟩

/-- `Reports s g ops`: along the whole history every flow frame emitted carries
    the link-credit the receiver holds at that moment and a delivery-count that,
    together with the deliveries still queued for the application, equals
    (last learnt from the sender) + (deliveries arrived since). -/
def Reports : RSt → Ghost → List Op → Prop
  | _, _, [] => True
  | s, g, op :: ops =>
      (∀ p ∈ flowsOf (step s op).2,
          (p.1 + (step s op).1.queued) % 4294967296 = (ghostAfter g op).dc ∧
          p.2 = (step s op).1.lc) ∧
      Reports (step s op).1 (ghostAfter g op) ops

/-- **flow_reports.** For every history of sender flows, arriving transfer
    frames, `recv`s, disposals, `set_credit` and `drain` calls. -/
theorem flow_reports (ops : List Op) : ∀ (s : RSt) (g : Ghost), RInv s g →
    (∀ op ∈ ops, op.WF) → Reports s g ops := by
  induction ops with
  | nil => intro _ _ _ _; trivial
  | cons op ops ih =>
    intro s g h hwf
    obtain ⟨h1, h2⟩ := step_reports s g op h (hwf op (by simp))
    refine ⟨?_, ih _ _ h1 (fun o ho => hwf o (by simp [ho]))⟩
    intro p hp
    rw [h2 p hp]
    exact ⟨h1.acc, rfl⟩

/-- with nothing queued the reported delivery-count is exactly
    last-learnt + arrived-since -/
theorem flow_reports_idle (s : RSt) (g : Ghost) (h : RInv s g) (hq : s.queued = 0)
    (hdc : s.dc < 4294967296) : s.dc = g.dc := by
  have := h.acc
  rw [hq] at this
  simpa [Nat.mod_eq_of_lt hdc] using this

theorem attached_inv (idc : Nat) (m : Mode) (h : idc < 4294967296) :
    RInv (attached idc m) ⟨idc, 0⟩ := by
  refine ⟨rfl, ?_⟩
  simp [attached, Ghost.dc]

/-! ### enforcement -/

/-- **enforces / one_credit_per_delivery.** A completed delivery is handed to the
    application iff credit is left; it then takes exactly one credit and advances
    delivery-count by one.  Without credit the result is a transfer-limit
    violation and nothing changes. -/
theorem enforces (s : RSt) (hq : 0 < s.queued) :
    (s.lc = 0 → step s .recv = (s, [.limitExceeded])) ∧
    (0 < s.lc → step s .recv =
        ({ s with dc := (s.dc + 1) % 4294967296, lc := s.lc - 1,
                  queued := s.queued - 1, pending := s.pending - 1 }, [.delivered])) :=
  ⟨step_recv_limit s hq, step_recv_ok s hq⟩

/-! ### replenishment -/

/-- **auto_topup.** In mode `Auto n`, as soon as the deliveries disposed since the
    last refresh reach `n / 2` the receiver sends a flow granting `n` again
    (`n = 1`: after every disposal). -/
theorem auto_topup (s : RSt) (n k : Nat) (hm : s.mode = .auto n) (hk : s.processed + k ≥ n / 2) :
    step s (.dispose k) =
      ({ s with processed := 0, lc := n, drain := false }, [.flow s.dc n false false]) :=
  step_dispose_topup s n k hm hk

/-- closed loop in mode `Auto n`: the sender transfers only while the receiver
    has credit, the application disposes only deliveries it has received -/
inductive LoopOp where
  | transfer
  | dispose (k : Nat)

/-- `u` = deliveries handed to the application and not yet disposed -/
def loopStep (s : RSt) (u : Nat) : LoopOp → Option (RSt × Nat)
  | .transfer =>
    -- the sender transfers only while the receiver has credit; the application receives it
    if 0 < s.lc then some ((step (step s (.arrive false false)).1 .recv).1, u + 1) else none
  | .dispose k => if 1 ≤ k ∧ k ≤ u then some ((step s (.dispose k)).1, u - k) else none

def loopRun (s : RSt) (u : Nat) : List LoopOp → Option (RSt × Nat)
  | [] => some (s, u)
  | op :: ops => match loopStep s u op with
    | some (s', u') => loopRun s' u' ops
    | none => none

structure AutoInv (n : Nat) (s : RSt) (u : Nat) : Prop where
  mode : s.mode = .auto n
  bal : s.lc + s.processed + u ≥ n
  small : s.processed < Nat.max 1 (n / 2)
  zero : n / 2 = 0 → s.processed = 0

theorem loopStep_inv (n : Nat) (s : RSt) (u : Nat) (op : LoopOp) (h : AutoInv n s u)
    (s' : RSt) (u' : Nat) (hs : loopStep s u op = some (s', u')) : AutoInv n s' u' := by
  obtain ⟨hm, hb, hsm, hz⟩ := h
  cases op with
  | transfer =>
    simp only [loopStep] at hs
    split at hs
    · rename_i hpos
      cases hs
      have e1 : step s (.arrive false false) = ({ s with queued := s.queued + 1, pending := s.pending + 1 }, []) := by
        rw [step_arrive]; rfl
      rw [e1]
      have := (enforces { s with queued := s.queued + 1, pending := s.pending + 1 } (by simp)).2 hpos
      rw [this]
      exact ⟨hm, by simp; omega, hsm, hz⟩
    · cases hs
  | dispose k =>
    simp only [loopStep] at hs
    split at hs
    · rename_i hk
      cases hs
      by_cases ht : s.processed + k ≥ n / 2
      · rw [auto_topup s n k hm ht]
        refine ⟨hm, by simp, ?_, by simp⟩
        simp only [Nat.max_def]; split <;> omega
      · rw [step_dispose_quiet s k (Or.inr ⟨n, hm, ht⟩)]
        refine ⟨hm, by simp; omega, ?_, ?_⟩
        · show s.processed + k < Nat.max 1 (n / 2)
          simp only [Nat.max_def]; split <;> omega
        · intro h0
          show s.processed + k = 0
          omega
    · cases hs

theorem loopRun_inv (n : Nat) (ops : List LoopOp) : ∀ (s : RSt) (u : Nat), AutoInv n s u →
    ∀ s' u', loopRun s u ops = some (s', u') → AutoInv n s' u' := by
  induction ops with
  | nil => intro s u h s' u' hr; simp [loopRun] at hr; obtain ⟨rfl, rfl⟩ := hr; exact h
  | cons op ops ih =>
    intro s u h s' u' hr
    simp only [loopRun] at hr
    cases hl : loopStep s u op with
    | none => simp [hl] at hr
    | some p =>
      obtain ⟨s1, u1⟩ := p
      simp only [hl] at hr
      exact ih s1 u1 (loopStep_inv n s u op h s1 u1 hl) s' u' hr

/-- state after attaching in mode `Auto n` and the initial `set_credit n` -/
def autoStart (idc n : Nat) : RSt := (step (attached idc (.auto n)) (.setCredit n)).1

/-- **no_stall.** In mode `Auto n` (`n ≥ 1`), for every history of a
    credit-respecting sender and an application that disposes only what it
    received: whenever the receiver's credit is exhausted, more than `n/2 - 1`
    … precisely at least `n - n/2 + 1` (≥ 1) deliveries are still in the
    application's hands undisposed; equivalently, once the application has
    disposed of everything it got, credit is available (and was announced by a
    flow, `auto_topup`).  So a sender that respects credit is never left without
    credit by the receiver itself, for streams of any length. -/
theorem no_stall (idc n : Nat) (hn : 1 ≤ n) (ops : List LoopOp) (s : RSt) (u : Nat)
    (hr : loopRun (autoStart idc n) 0 ops = some (s, u)) :
    (u = 0 → 0 < s.lc) ∧ (s.lc = 0 → u + Nat.max 1 (n / 2) > n) := by
  have h0 : AutoInv n (autoStart idc n) 0 := by
    refine ⟨by simp [autoStart, step, onSetCredit, modeWith, attached, sendFlow], ?_, ?_, ?_⟩ <;>
      simp [autoStart, step, onSetCredit, modeWith, attached, sendFlow, get_link_flow.assign_link_credit_0, Nat.max_def]
    split <;> omega
  obtain ⟨_, hb, hsm, hz⟩ := loopRun_inv n ops _ _ h0 s u hr
  constructor
  · intro hu
    subst hu
    simp only [Nat.max_def] at hsm
    split at hsm <;> omega
  · intro hl
    simp only [Nat.max_def] at hsm ⊢
    split at hsm <;> split <;> omega

/-! ### non-vacuity -/
example : loopRun (autoStart 4294967295 4) 0
    [.transfer, .transfer, .dispose 1, .transfer, .dispose 2, .transfer, .transfer] ≠ none := by decide

example : flowsOf (run (attached 4294967295 (.auto 2))
    [.setCredit 2, .arrive false false, .recv, .dispose 1, .arrive true false, .arrive false false,
     .inFlow (some 1) true, .recv]).2
    = [(4294967295, 2), (0, 2), (0, 2)] := by decide

/-- **topup_owed_until_queued.** generated obligation: in `update_credit_if_auto` the counter of
    processed deliveries is reset only after the top-up flow has been handed to the session
    (`send_flow(..).await` comes first).  A disposal or `recv` future that is dropped while that flow
    waits for room therefore leaves the top-up owed and the next call issues it; with the reset
    first the owed credit would be forgotten and a sender that respects credit would stall
    (`no_stall` assumes every owed top-up is eventually issued). -/
theorem topup_owed_until_queued : Amqp.Cancel.topupResetLast = true := by decide

/-- generated obligations: what `attached` / `resume` (the count of the sender's attach, as it is) and
    `dispose k` (k added to the processed count) assume of the source -/
theorem source_attach_takes_the_senders_count : attachTakesTheSendersCount = true := by decide
theorem source_credit_taken_before_decoding : creditTakenBeforeDecoding = true := by decide

theorem source_batch_counts_every_delivery : batchCountsEveryDelivery = true := by decide

/-- **resume_reports_the_new_count.** After a detach and a resumption (nothing queued) the flow that
    follows reports exactly the delivery-count the sender's new attach carried — not the old count,
    not the old count carried over on top of it — with the credit the receiver holds; the counts of
    the previous incarnation play no part. -/
theorem resume_reports_the_new_count (s : RSt) (idc : Nat) :
    (resume s idc).2 = [.flow idc (get_link_flow.assign_link_credit_0 s.lc) false false] ∧
    (resume s idc).1.dc = idc := by
  simp [resume, onSetCredit, sendFlow, get_link_flow.assign_drain_0]

/-- and the deliveries received after it are counted from there -/
example : flowsOf (run (resume (run (attached 100 .manual)
      [.setCredit 3, .arrive false false, .arrive false false, .arrive false false, .recv, .recv, .recv]).1 500).1
    [.setCredit 5, .arrive false false, .arrive false false, .recv, .recv, .setCredit 4]).2
    = [(500, 5), (502, 4)] := by decide

end Amqp.RecvCredit
