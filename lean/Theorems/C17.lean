/-
  C17 — negotiated limits: channel-max and idle time-outs.
-/
import Amqp.Limits
import Theorems.C11

namespace Amqp.Limits
open Amqp.Handles Amqp.Gen.Limits

/-- the agreed channel-max is the smaller of the two -/
theorem agreed_is_min (l r : Nat) : agreed l r = Nat.min l r := rfl

/-- the slab is full up to its length: `live` and `free` account for every key below `len` -/
def Counted (s : Slab) : Prop := s.live.length + s.free.length = s.len

theorem counted_empty : Counted Slab.empty := rfl

theorem counted_insert (s : Slab) (v : String) (h : Counted s) : Counted (s.insert v).1 := by
  unfold Counted Slab.insert at *
  cases hf : s.free with
  | nil => simp [hf] at h ⊢; omega
  | cons k rest => simp [hf] at h ⊢; omega

theorem filter_ne_length (k : Nat) : ∀ (l : List (Nat × String)), (l.map (·.1)).Nodup → (∃ v, (k, v) ∈ l) →
    (l.filter (fun x => x.1 != k)).length + 1 = l.length := by
  intro l
  induction l with
  | nil => intro _ h; obtain ⟨v, hv⟩ := h; simp at hv
  | cons x xs ih =>
    intro hnd hmem
    simp only [List.map_cons, List.nodup_cons] at hnd
    obtain ⟨v, hv⟩ := hmem
    rcases List.mem_cons.mp hv with heq | hin
    · have hx : x.1 = k := by rw [← heq]
      have hnone : xs.filter (fun x => x.1 != k) = xs := by
        apply List.filter_eq_self.mpr
        intro y hy
        have : y.1 ≠ k := fun hh => hnd.1 (hx ▸ hh ▸ List.mem_map_of_mem hy)
        simpa using this
      have hself : (x.1 != k) = false := by simp [hx]
      rw [List.filter_cons, hself]
      simp only [Bool.false_eq_true, if_false, hnone, List.length_cons]
    · have hxk : x.1 ≠ k := fun hh => hnd.1 (hh ▸ List.mem_map_of_mem hin)
      have := ih hnd.2 ⟨v, hin⟩
      have hxb : (x.1 != k) = true := by simpa using hxk
      rw [List.filter_cons, hxb]
      simp only [if_true, List.length_cons]; omega

theorem counted_remove (s : Slab) (k : Nat) (h : Counted s) (hi : SlabInv s) : Counted (s.remove k).1 := by
  unfold Counted at *
  cases hfind : s.live.find? (·.1 == k) with
  | none => simpa [Slab.remove, hfind] using h
  | some kv =>
    obtain ⟨k', v⟩ := kv
    have hmem := List.mem_of_find?_eq_some hfind
    have hk : k' = k := by simpa using List.find?_some hfind
    subst hk
    have hcount := filter_ne_length k' s.live hi.liveNodup ⟨v, hmem⟩
    simp only [Slab.remove, hfind, List.length_cons]
    omega

/-- **never above channel-max.** Whatever the history of begins and ends, a session is only ever
    begun on a channel no greater than the agreed channel-max -/
theorem channel_within_max (bound : Nat) (ops : List Op) : ∀ (s : Slab), ∀ r ∈ (run bound s ops).2,
    ∀ ch, r = some (.channel ch) → ch ≤ bound := by
  induction ops with
  | nil => intro s r hr; simp [run] at hr
  | cons op ops ih =>
    intro s r hr ch hch
    simp only [run, List.mem_cons] at hr
    rcases hr with rfl | hr
    · cases op with
      | alloc =>
        simp only [step, allocate, allocate_session.cond_if_0] at hch
        by_cases hgt : s.vacantKey > bound
        · simp [hgt] at hch
        · simp only [hgt, decide_false, Bool.false_eq_true, if_false, Option.some.injEq, AllocRes.channel.injEq] at hch
          subst hch
          omega
      | free k => simp [step] at hch
    · exact ih _ r hr ch hch

/-- slab invariants along a history -/
theorem run_inv (bound : Nat) (ops : List Op) : ∀ (s : Slab), SlabInv s → Counted s →
    SlabInv (run bound s ops).1 ∧ Counted (run bound s ops).1 := by
  induction ops with
  | nil => intro s h c; exact ⟨h, c⟩
  | cons op ops ih =>
    intro s h c
    simp only [run]
    cases op with
    | alloc =>
      simp only [step, allocate]
      split
      · exact ih s h c
      · exact ih _ (insert_fresh s "" h).2 (counted_insert s "" c)
    | free k => exact ih _ (remove_inv s k h) (counted_remove s k c h)

/-- no key above the bound is ever created -/
theorem run_len (bound : Nat) (ops : List Op) : ∀ (s : Slab), s.len ≤ bound + 1 → (run bound s ops).1.len ≤ bound + 1 := by
  induction ops with
  | nil => intro s h; exact h
  | cons op ops ih =>
    intro s h
    simp only [run]
    cases op with
    | alloc =>
      simp only [step, allocate, allocate_session.cond_if_0]
      by_cases hgt : s.vacantKey > bound
      · simp only [hgt, decide_true, if_true]; exact ih s h
      · simp only [hgt, decide_false, Bool.false_eq_true, if_false]
        apply ih
        unfold Slab.insert
        unfold Slab.vacantKey at hgt
        cases hf : s.free with
        | nil => simp [hf] at hgt ⊢; omega
        | cons k rest => simpa [hf] using h
    | free k =>
      apply ih
      show (Amqp.Limits.free s k).len ≤ bound + 1
      unfold Amqp.Limits.free Slab.remove
      split <;> exact h

/-- **refused only when every channel is taken**: a begin is refused locally exactly when all
    channels `0 ..= channel-max` carry a live session -/
theorem refused_only_when_full (bound : Nat) (s : Slab) (c : Counted s) (hlen : s.len ≤ bound + 1)
    (hfl : ∀ k ∈ s.free, k < s.len)
    (hr : (allocate s bound).2 = .maxReached) : s.live.length = bound + 1 := by
  simp only [allocate, allocate_session.cond_if_0] at hr
  by_cases hgt : s.vacantKey > bound
  · unfold Slab.vacantKey at hgt
    cases hf : s.free with
    | nil =>
      simp [hf] at hgt
      unfold Counted at c
      simp [hf] at c
      omega
    | cons k rest =>
      simp [hf] at hgt
      have := hfl k (by simp [hf])
      omega
  · simp [hgt] at hr

/-- with the bound never exceeded (`channel_within_max`) a slab that only grew through `allocate`
    has exactly `bound + 1` live sessions when it refuses -/
theorem alloc_below_bound_succeeds (bound : Nat) (s : Slab) (hk : s.vacantKey ≤ bound) :
    (allocate s bound).2 = .channel s.vacantKey := by
  have : ¬ s.vacantKey > bound := by omega
  simp [allocate, allocate_session.cond_if_0, this]

/-! ## heartbeat -/

/-- **no interval of the advertised length without a frame**: the heartbeat period is strictly
    shorter than the idle-time-out the peer advertised (both in microseconds) -/
theorem heartbeat_period_lt_timeout (idle : Nat) (h : 0 < idle) :
    ∃ p, heartbeatPeriod idle = some p ∧ 0 < p ∧ p < idle * 1000 := by
  refine ⟨idle * 500, ?_, by omega, by omega⟩
  simp [heartbeatPeriod, open_inner.let_period_0]; omega

/-- after any instant `t` the next beat comes within one period, hence strictly within the
    advertised time-out -/
theorem next_beat_in_time (idle t : Nat) (h : 0 < idle) :
    ∃ k, t < k * (idle * 500) ∧ k * (idle * 500) ≤ t + idle * 500 ∧ k * (idle * 500) - t < idle * 1000 := by
  have hp : 0 < idle * 500 := by omega
  refine ⟨t / (idle * 500) + 1, ?_, ?_, ?_⟩
  · have := Nat.lt_div_mul_add hp (a := t)
    rw [Nat.add_mul, Nat.one_mul]; exact this
  · have := Nat.div_mul_le_self t (idle * 500)
    rw [Nat.add_mul, Nat.one_mul]; omega
  · have := Nat.div_mul_le_self t (idle * 500)
    rw [Nat.add_mul, Nat.one_mul]; omega

/-- no heartbeat is owed to a peer that advertised none -/
theorem no_heartbeat_without_timeout : heartbeatPeriod 0 = none := rfl

/-! ## the endpoint's own idle time-out (`Transport::poll_next`: a delay re-armed by every frame) -/

/-- has the time-out `T` expired at `now`, the last frame having arrived at `last`? -/
def expired (T last now : Nat) : Bool := decide (now - last ≥ T)

/-- not while frames keep arriving in time -/
theorem alive_while_frames_arrive (T : Nat) (arrivals : List Nat) (now last : Nat)
    (_hlast : last ∈ arrivals) (hnow : now - last < T) : expired T last now = false := by
  simp [expired]; omega

/-- once nothing has arrived for that long -/
theorem expires_after_silence (T last now : Nat) (h : last + T ≤ now) : expired T last now = true := by
  simp [expired]; omega

/-- the source polls its input first and re-arms the deadline on every frame -/
theorem source_input_first : inputFirst = true := by decide

/-- **a late reader does not time out**: however late the engine gets to poll its input — held up by a
    slow write, a full queue, the scheduler — a frame that is waiting is read (and re-arms the
    deadline); the time-out is reported only when nothing is waiting at all.  For every state and
    every instant. -/
theorem timeout_only_when_nothing_waits (T : Nat) (r : Reader) (now : Nat)
    (h : (rstep inputFirst T r (.pollAt now)).2 = some .timeout) : r.waiting = 0 ∧ r.deadline ≤ now := by
  rw [source_input_first] at h
  simp only [rstep, poll, if_true] at h
  by_cases hw : 0 < r.waiting
  · simp [hw] at h
  · by_cases hd : r.deadline ≤ now
    · exact ⟨by omega, hd⟩
    · simp [hw, hd] at h

/-- every frame read re-arms the deadline a full time-out ahead -/
theorem frame_rearms (T : Nat) (r : Reader) (now : Nat) (hw : 0 < r.waiting) :
    rstep inputFirst T r (.pollAt now) = ({ waiting := r.waiting - 1, deadline := now + T }, some .frame) := by
  rw [source_input_first]
  simp [rstep, poll, hw]

/-- the other order is wrong: with the deadline looked at first, a frame that arrived in time is lost to
    a time-out as soon as the reader is late (this is what a seeded reordering does) -/
theorem deadline_first_times_out_a_live_peer :
    (rstep false 100 { waiting := 1, deadline := 100 } (.pollAt 150)).2 = some .timeout := by decide

example : (run 1 Slab.empty [.alloc, .alloc, .alloc, .free 0, .alloc]).2 =
    [some (.channel 0), some (.channel 1), some .maxReached, none, some (.channel 0)] := by decide

end Amqp.Limits
