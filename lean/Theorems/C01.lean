/-
  C01 — end-to-end delivery: every message sent arrives intact, once, in order.
-/
import Amqp.E2E
import Theorems.C07
import Theorems.C10
import Theorems.C11
import Theorems.C13
import Theorems.Message

namespace Amqp.E2E
open Amqp.LinkSplit Amqp.Frame Amqp.Gen.LinkSplit Amqp.Gen.FrameK

def pay (ps : List Piece) : Bytes := (ps.map (·.payload)).flatten

/-- a non-empty list of pieces whose last is the only one without `more` … up to the flag `m` of the last -/
def MoreShape (m : Bool) (ps : List Piece) : Prop :=
  ∃ init last, ps = init ++ [last] ∧ (∀ p ∈ init, p.more = true) ∧ last.more = m

/-! ## the link's cut -/

theorem lMiddle_payload (m : Nat) : ∀ (fuel : Nat) (rest : Bytes),
    ((lMiddle m fuel rest).1).flatten ++ (lMiddle m fuel rest).2 = rest
  | 0, rest => by simp [lMiddle]
  | fuel + 1, rest => by
    unfold lMiddle
    by_cases h : link_split.cond_while_0 rest.length m = true
    · simp only [h, if_true]
      have ih := lMiddle_payload m fuel (rest.drop (link_split.arg_split_to_1 m))
      simp only [List.flatten_cons, List.append_assoc, ih, List.take_append_drop]
    · simp [h]

theorem linkSplit_payload (m : Nat) (payload : Bytes) : pay (linkSplit m payload) = payload := by
  unfold linkSplit linkSplitWith pay
  by_cases h : link_split.cond_if_0 payload.length m = true
  · simp [h]
  · simp only [h, if_false, Bool.false_eq_true]
    have hm := lMiddle_payload m payload.length (payload.drop (link_split.arg_split_to_0 m))
    generalize lMiddle m payload.length (payload.drop (link_split.arg_split_to_0 m)) = mr at hm
    obtain ⟨mids, rest⟩ := mr
    have e : ((mids.map (fun c => (⟨false, true, c⟩ : Piece))).map (·.payload)) = mids := by
      rw [List.map_map]
      have : ((fun x : Piece => x.payload) ∘ fun c => (⟨false, true, c⟩ : Piece)) = id := by funext c; rfl
      rw [this, List.map_id]
    simp only [List.map_cons, List.map_append, List.map_nil, List.flatten_cons, List.flatten_append, List.flatten_nil,
      List.append_nil, e]
    simp only at hm
    rw [List.append_assoc, hm, List.take_append_drop]

theorem linkSplit_more (m : Nat) (payload : Bytes) : MoreShape false (linkSplit m payload) := by
  unfold linkSplit linkSplitWith
  by_cases h : link_split.cond_if_0 payload.length m = true
  · exact ⟨[], ⟨true, false, payload⟩, by simp [h], by simp, rfl⟩
  · simp only [h, if_false, Bool.false_eq_true]
    generalize lMiddle m payload.length (payload.drop (link_split.arg_split_to_0 m)) = mr
    obtain ⟨mids, rest⟩ := mr
    refine ⟨_ :: mids.map (fun c => (⟨false, true, c⟩ : Piece)), _, rfl, ?_, rfl⟩
    intro p hp
    rcases List.mem_cons.mp hp with rfl | hp
    · rfl
    · obtain ⟨c, _, rfl⟩ := List.mem_map.mp hp; rfl

/-! ## the engine's cut of one link transfer -/

theorem frameCut_payload (B : Nat) (lens : Piece → SLens) (p : Piece) : pay (frameCut B lens p) = p.payload := by
  have := session_cut_payload B (lens p) p.payload
  unfold frameCut pay
  unfold piecesPayload at this
  rw [List.map_map]
  have e : (List.map ((fun x => x.payload) ∘ pieceOf p) (sessionSplit B (lens p) p.payload)) =
      (sessionSplit B (lens p) p.payload).map (·.2) := by
    apply List.map_congr_left
    intro kc _
    obtain ⟨k, c⟩ := kc
    cases k <;> rfl
  rw [e]; exact this

theorem frameCut_more (B : Nat) (lens : Piece → SLens) (p : Piece) : MoreShape p.more (frameCut B lens p) := by
  unfold frameCut
  rcases sessionSplit_shape B (lens p) p.payload with ⟨c, h⟩ | ⟨c, cs, r, h⟩
  · exact ⟨[], pieceOf p (SKind.whole, c), by simp [h], by simp, rfl⟩
  · refine ⟨pieceOf p (SKind.first, c) :: cs.map (fun x => pieceOf p (SKind.cont, x)), pieceOf p (SKind.last, r), ?_, ?_, rfl⟩
    · rw [h]; simp [List.map_map, Function.comp]
    · intro q hq
      rcases List.mem_cons.mp hq with rfl | hq
      · rfl
      · obtain ⟨x, _, rfl⟩ := List.mem_map.mp hq; rfl

/-! ## both cuts -/

theorem pay_append (a b : List Piece) : pay (a ++ b) = pay a ++ pay b := by simp [pay]

theorem pay_flatMap (f : Piece → List Piece) (hf : ∀ p, pay (f p) = p.payload) : ∀ (ps : List Piece), pay (ps.flatMap f) = pay ps
  | [] => rfl
  | p :: ps => by
    rw [List.flatMap_cons, pay_append, hf p, pay_flatMap f hf ps]
    simp [pay]

theorem delivery_payload (m B : Nat) (lens : Piece → SLens) (payload : Bytes) :
    pay (deliveryFrames m B lens payload) = payload := by
  unfold deliveryFrames
  rw [pay_flatMap _ (frameCut_payload B lens), linkSplit_payload]

theorem more_flatMap (f : Piece → List Piece) (hf : ∀ p, MoreShape p.more (f p)) :
    ∀ (init : List Piece), (∀ p ∈ init, p.more = true) → ∀ q ∈ init.flatMap f, q.more = true
  | [], _, q, hq => by simp at hq
  | p :: ps, h, q, hq => by
    rw [List.flatMap_cons] at hq
    rcases List.mem_append.mp hq with hq | hq
    · obtain ⟨i, l, e, hi, hl⟩ := hf p
      rw [e] at hq
      rcases List.mem_append.mp hq with hq | hq
      · exact hi q hq
      · simp at hq; subst hq; rw [hl]; exact h p (by simp)
    · exact more_flatMap f hf ps (fun x hx => h x (by simp [hx])) q hq

theorem delivery_more (m B : Nat) (lens : Piece → SLens) (payload : Bytes) :
    MoreShape false (deliveryFrames m B lens payload) := by
  unfold deliveryFrames
  obtain ⟨init, last, e, hi, hl⟩ := linkSplit_more m payload
  rw [e, List.flatMap_append]
  obtain ⟨i2, l2, e2, hi2, hl2⟩ := frameCut_more B lens last
  refine ⟨init.flatMap (frameCut B lens) ++ i2, l2, ?_, ?_, by rw [hl2, hl]⟩
  · simp [e2, List.append_assoc]
  · intro q hq
    rcases List.mem_append.mp hq with hq | hq
    · exact more_flatMap _ (frameCut_more B lens) init hi q hq
    · exact hi2 q hq

/-! ## one delivery through the wire -/

theorem run_append (a : List Amqp.Reasm.Frame) : ∀ (st : Option Amqp.Reasm.Inc) (b : List Amqp.Reasm.Frame),
    Amqp.Reasm.run st (a ++ b) =
      ((Amqp.Reasm.run (Amqp.Reasm.run st a).1 b).1, (Amqp.Reasm.run st a).2 ++ (Amqp.Reasm.run (Amqp.Reasm.run st a).1 b).2) := by
  induction a with
  | nil => intro st b; simp [Amqp.Reasm.run]
  | cons x xs ih => intro st b; simp [Amqp.Reasm.run, ih]

/-- **one message**: whatever its size, the peer's max-message-size and the frame size, the frames
    of a delivery hand the receiving application nothing until the last one, then exactly one
    delivery with the sender's tag and byte for byte the sender's payload; no error, no state left -/
theorem one_delivery (m B : Nat) (lens : Piece → SLens) (id : Nat) (msg : Msg) :
    ∃ n settled, Amqp.Reasm.run none (wireOf m B lens id msg) =
      (none, List.replicate n Amqp.Reasm.Out.nothing ++ [.delivery id msg.tag (some 0) settled msg.payload]) := by
  obtain ⟨k, htags⟩ := one_tag_per_delivery m B lens msg.payload
  obtain ⟨init, last, e, hi, hl⟩ := delivery_more m B lens msg.payload
  have hpay := delivery_payload m B lens msg.payload
  unfold wireOf
  rw [e] at htags hpay ⊢
  cases init with
  | nil =>
    -- a single frame
    simp only [List.nil_append, tags, List.map_cons, List.map_nil, List.cons.injEq] at htags
    have ht : last.hasTag = true := htags.1
    refine ⟨0, msg.settled, ?_⟩
    have := Amqp.Reasm.single_frame id msg.tag (toFrame id msg last) (by simp [toFrame, ht]) (by simp [toFrame, ht])
      (by simp [toFrame, hl]) rfl
    simp only [List.nil_append, List.map_cons, List.map_nil, Amqp.Reasm.run, this]
    simp [toFrame, ht, pay] at hpay ⊢
    exact hpay
  | cons first mids =>
    simp only [List.cons_append, tags, List.map_cons, List.map_append, List.map_nil, List.cons.injEq] at htags
    obtain ⟨ht, hrest⟩ := htags
    have hfalse : ∀ q ∈ mids ++ [last], q.hasTag = false := by
      intro q hq
      have : q.hasTag ∈ (mids ++ [last]).map (·.hasTag) := List.mem_map_of_mem hq
      simp only [List.map_append, List.map_cons, List.map_nil] at this
      rw [hrest] at this
      exact (List.mem_replicate.mp this).2
    have hagree : ∀ q ∈ mids ++ [last], Amqp.Reasm.Agrees id msg.tag (some 0) (toFrame id msg q) := by
      intro q hq
      have := hfalse q hq
      simp [Amqp.Reasm.Agrees, toFrame, this]
    obtain ⟨settled, hr⟩ := Amqp.Reasm.reasm_once id msg.tag (some 0) (toFrame id msg first) (mids.map (toFrame id msg))
      (toFrame id msg last)
      ⟨by simp [toFrame, ht], by simp [toFrame, ht], by simp [toFrame, ht], by simp [toFrame, hi first (by simp)], rfl⟩
      (by
        intro f hf
        obtain ⟨q, hq, rfl⟩ := List.mem_map.mp hf
        exact ⟨hagree q (by simp [hq]), by simp [toFrame, hi q (by simp [hq])]⟩)
      ⟨hagree last (by simp), by simp [toFrame, hl]⟩
    refine ⟨mids.length + 1, settled, ?_⟩
    simp only [List.cons_append, List.map_cons, List.map_append, List.map_nil] at hr ⊢
    rw [hr]
    have hp2 : (toFrame id msg first).payload ++ ((mids.map (toFrame id msg)).map (·.payload)).flatten ++ (toFrame id msg last).payload
        = msg.payload := by
      rw [← hpay]
      have e1 : List.map ((fun x => x.payload) ∘ toFrame id msg) mids = List.map (fun x => x.payload) mids :=
        List.map_congr_left (fun q _ => rfl)
      simp [pay, toFrame, List.map_map, e1]
    rw [hp2]
    have e2 : List.map ((fun _ => Amqp.Reasm.Out.nothing) ∘ toFrame id msg) mids = List.replicate mids.length Amqp.Reasm.Out.nothing := by
      clear hr hp2 hagree hfalse hrest hpay hi e
      induction mids with
      | nil => rfl
      | cons q qs ih => simp [List.replicate_succ, ih]
    simp [List.replicate_succ, e2]

/-! ## the property -/

theorem delivered_append (a b : List Amqp.Reasm.Out) : delivered (a ++ b) = delivered a ++ delivered b := by
  simp [delivered, List.filterMap_append]

theorem errors_append (a b : List Amqp.Reasm.Out) : errors (a ++ b) = errors a ++ errors b := by
  simp [errors, List.filter_append]

theorem delivered_nothing (n : Nat) : delivered (List.replicate n Amqp.Reasm.Out.nothing) = [] := by
  induction n with
  | zero => rfl
  | succ n ih => simp [List.replicate_succ, delivered] at ih ⊢

theorem errors_nothing (n : Nat) : errors (List.replicate n Amqp.Reasm.Out.nothing) = [] := by
  induction n with
  | zero => rfl
  | succ n ih => simp [List.replicate_succ, errors] at ih ⊢

/-- **end-to-end delivery.**  For every finite sequence of messages of any sizes, every
    max-message-size of the peer, every frame size and every starting transfer-id: what `recv` hands
    to the receiving application is exactly the sequence of messages sent on the link — each once,
    byte for byte, in the order sent — with no reassembly error and no partial delivery left over. -/
theorem end_to_end (m B : Nat) (lens : Piece → SLens) : ∀ (msgs : List Msg) (next : Nat),
    let r := Amqp.Reasm.run none (wireAll m B lens next msgs)
    r.1 = none ∧ delivered r.2 = msgs.map (fun x => (x.tag, x.payload)) ∧ errors r.2 = []
  | [], next => by simp [wireAll, Amqp.Reasm.run, delivered, errors]
  | msg :: rest, next => by
    obtain ⟨n, settled, h1⟩ := one_delivery m B lens next msg
    have ih := end_to_end m B lens rest (next + (wireOf m B lens next msg).length)
    simp only [wireAll, run_append, h1] at ih ⊢
    refine ⟨ih.1, ?_, ?_⟩
    · rw [delivered_append, delivered_append, delivered_nothing, ih.2.1]
      simp [delivered]
    · rw [errors_append, errors_append, errors_nothing, ih.2.2]
      simp [errors]

/-- non-vacuity: three messages, the middle one cut by both layers -/
example :
    let lens : Piece → SLens := fun p => if p.hasTag then ⟨20, 20, 12⟩ else ⟨12, 12, 12⟩
    let msgs : List Msg := [⟨[1], false, [10, 11]⟩, ⟨[2], true, List.replicate 70 7⟩, ⟨[3], false, []⟩]
    (wireAll 40 32 lens 5 msgs).length = 7 ∧
    delivered (Amqp.Reasm.run none (wireAll 40 32 lens 5 msgs)).2 = msgs.map (fun x => (x.tag, x.payload)) := by
  decide

end Amqp.E2E
