/-
  C03 — the module the check builds: the untyped round trip (`Theorems.C03`) together with the
  typed layer (`Theorems.Typed`: the composites of fe2o3-amqp-types as the derive macros encode
  and decode them, for the declarations regenerated from the source).
-/
import Theorems.C03
import Theorems.Typed
import Theorems.Message
import Theorems.Enums
