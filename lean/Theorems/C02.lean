/-
  C02 — settlement: each send resolves once, with its own delivery's outcome.

  Sender side: `Amqp.Settle.step / run` (session routing table, links' unsettled maps,
  oneshots).  Receiver side: `Amqp.Settle.rstep / rrun`.
  All theorems quantify over every disposition history (any ranges, duplicates, unknown
  ids, settled and unsettled, terminal, non-terminal and absent states, ids around 2^32).
-/
import Theorems.Lemmas.SettleKnown
import Theorems.Dispose
import Theorems.Resume

namespace Amqp.Settle
open Amqp Amqp.Gen.Settle

/-- well-formed tables: delivery-ids unique (C11), tags unique per link, ids are u32 -/
structure WF (s : St) : Prop where
  ids : IdsNodup s.byId
  tags : TagsInj s.byId
  lt : ∀ e ∈ s.byId, e.id < 4294967296

/-- an operation the endpoint can be asked to perform in state `s`: an unsettled send uses a
    fresh delivery-id (C11: ids are never reused while outstanding) and a fresh tag -/
def OpOk (s : St) : Op → Prop
  | .send link tag id settled =>
      settled = true ∨ (id < 4294967296 ∧ (∀ e ∈ s.byId, e.id ≠ id) ∧ (∀ e ∈ s.byId, ¬ (e.link = link ∧ e.tag = tag)))
  | .disp first _ _ _ => first < 4294967296

def HistOk : St → List Op → Prop
  | _, [] => True
  | s, op :: ops => OpOk s op ∧ HistOk (step s op).1 ops

theorem wf_init (second : List Bool) : WF (init second) :=
  ⟨by simp [init, IdsNodup], by intro e he; simp [init] at he, by intro e he; simp [init] at he⟩

/-- **1. A pre-settled send completes as accepted without waiting**, and leaves no state. -/
theorem presettled_completes_at_once (s : St) (link tag id : Nat) :
    step s (.send link tag id true) = (s, [.resolved link tag .accepted]) := by
  simp [step]

/-- the tables after a disposition are sub-tables of those before -/
theorem disp_sub (s : St) (first last : Nat) (settled : Bool) (st : DS) :
    (∀ e ∈ (step s (.disp first last settled st)).1.byId, e ∈ s.byId) ∧
    (∀ x ∈ (step s (.disp first last settled st)).1.unsettled, x ∈ s.unsettled) := by
  unfold step
  cases settled with
  | true => simp only [if_true]; exact ⟨(settleIds_sub st _ s).1, (settleIds_sub st _ s).2.1⟩
  | false =>
    simp only [Bool.false_eq_true, if_false]
    exact ⟨(updateIds_sub st _ s []).1, (updateIds_sub st _ s []).2.1⟩

theorem wf_step (s : St) (op : Op) (h : WF s) (hok : OpOk s op) : WF (step s op).1 := by
  cases op with
  | send link tag id settled =>
    cases settled with
    | true => simpa [step] using h
    | false =>
      rcases hok with hc | ⟨hid, hfresh, hfreshTag⟩
      · cases hc
      · simp only [step, Bool.false_eq_true, if_false]
        refine ⟨?_, ?_, ?_⟩
        · unfold IdsNodup
          rw [List.map_append, List.nodup_append]
          refine ⟨h.ids, by simp, ?_⟩
          intro a ha b hb
          simp only [List.map_cons, List.map_nil, List.mem_singleton] at hb
          obtain ⟨e, he, rfl⟩ := List.mem_map.mp ha
          rw [hb]; exact hfresh e he
        · intro a ha b hb h1 h2
          simp only [List.mem_append, List.mem_singleton] at ha hb
          rcases ha with ha | rfl <;> rcases hb with hb | rfl
          · exact h.tags a ha b hb h1 h2
          · exact absurd ⟨h1, h2⟩ (hfreshTag a ha)
          · exact absurd ⟨h1.symm, h2.symm⟩ (hfreshTag b hb)
          · rfl
        · intro e he
          simp only [List.mem_append, List.mem_singleton] at he
          rcases he with he | rfl
          · exact h.lt e he
          · exact hid
  | disp first last settled st =>
    obtain ⟨hb, _⟩ := disp_sub s first last settled st
    refine ⟨?_, ?_, fun e he => h.lt e (hb e he)⟩
    · -- a sub-table keeps ids distinct
      unfold step
      cases settled with
      | true =>
        simp only [if_true]
        exact settleIds_idsNodup st _ s h.ids
      | false =>
        simp only [Bool.false_eq_true, if_false]
        exact updateIds_idsNodup st _ s [] h.ids
    · intro a ha b hb' h1 h2
      exact h.tags a (hb a ha) b (hb b hb') h1 h2

theorem wf_run (ops : List Op) : ∀ (s : St), WF s → HistOk s ops → WF (run s ops).1 := by
  induction ops with
  | nil => intro s h _; simpa [run] using h
  | cons op ops ih =>
    intro s h hok
    simp only [run]
    exact ih _ (wf_step s op h hok.1) hok.2

/-- **2. Own outcome.** When a disposition makes a send complete, it completes with exactly the
    state that disposition carries, the send was still waiting, the disposition was settling or
    its state terminal, and the delivery-id of that send lies in the disposition's serial range:
    never with another delivery's outcome. -/
theorem own_outcome (s : St) (h : WF s) (first last : Nat) (hf : first < 4294967296) (settled : Bool) (st st' : DS)
    (l t : Nat) (ho : Out.resolved l t st' ∈ (step s (.disp first last settled st)).2) :
    st' = st ∧ (settled = true ∨ st.terminal = true) ∧ (l, t) ∈ s.unsettled ∧
    ∃ e ∈ s.byId, e.link = l ∧ e.tag = t ∧ InRange first last e.id := by
  unfold step at ho
  cases settled with
  | true =>
    simp only [if_true] at ho
    obtain ⟨e, heq, he, hid, hheld⟩ := settleIds_resolved st _ s _ ho
    simp only [Out.resolved.injEq] at heq
    obtain ⟨rfl, rfl, rfl⟩ := heq
    exact ⟨rfl, Or.inl rfl, hheld, e, he, rfl, rfl, ((mem_knownIds _ _ _ _ hf h.lt).mp hid).2⟩
  | false =>
    simp only [Bool.false_eq_true, if_false, List.mem_append, List.mem_map] at ho
    rcases ho with ho | ⟨r, _, hr⟩
    · obtain ⟨e, heq, ht, he, hid, hheld⟩ := updateIds_resolved st _ s [] _ ho
      simp only [Out.resolved.injEq] at heq
      obtain ⟨rfl, rfl, rfl⟩ := heq
      exact ⟨rfl, Or.inr ht, hheld, e, he, rfl, rfl, ((mem_knownIds _ _ _ _ hf h.lt).mp hid).2⟩
    · cases hr

/-- sends of (l, t) in a history -/
def sendsOf (l t : Nat) : List Op → Nat
  | [] => 0
  | .send l' t' _ _ :: ops => (if l' = l ∧ t' = t then 1 else 0) + sendsOf l t ops
  | _ :: ops => sendsOf l t ops

theorem countRes_echoes (l t : Nat) (st : DS) (runs : List (Nat × Nat)) :
    countRes l t (runs.map (fun r => Out.echo r.1 r.2 st)) = 0 := by
  induction runs with
  | nil => rfl
  | cons r rs ih => simp [countRes_cons, isRes, ih]

theorem step_count (s : St) (op : Op) (l t : Nat) :
    countRes l t (step s op).2 + heldN (step s op).1 l t ≤ heldN s l t + sendsOf l t [op] := by
  cases op with
  | send l' t' id settled =>
    cases settled with
    | true =>
      simp only [step, if_true, sendsOf, countRes_cons, countRes_nil, isRes]
      by_cases h : l' = l ∧ t' = t
      · obtain ⟨rfl, rfl⟩ := h; simp; omega
      · have : (l' == l && t' == t) = false := by
          simp; intro h1 h2; exact h ⟨h1, h2⟩
        simp [this, h]
    | false =>
      simp only [step, Bool.false_eq_true, if_false, sendsOf, countRes_nil, heldN, List.mem_append, List.mem_singleton, Prod.mk.injEq]
      by_cases h : l' = l ∧ t' = t
      · simp [h]
      · have h' : ¬ (l = l' ∧ t = t') := fun hh => h ⟨hh.1.symm, hh.2.symm⟩
        simp [h, h']
  | disp first last settled st =>
    simp only [sendsOf, Nat.add_zero]
    unfold step
    cases settled with
    | true => simp only [if_true]; exact settleIds_count st l t _ s
    | false =>
      simp only [Bool.false_eq_true, if_false, countRes_append, countRes_echoes, Nat.add_zero]
      exact updateIds_count st l t _ s []

theorem run_count (l t : Nat) (ops : List Op) : ∀ (s : St),
    countRes l t (run s ops).2 + heldN (run s ops).1 l t ≤ heldN s l t + sendsOf l t ops := by
  induction ops with
  | nil => intro s; simp [run, countRes_nil, sendsOf]
  | cons op ops ih =>
    intro s
    simp only [run, countRes_append]
    have h1 := step_count s op l t
    have h2 := ih (step s op).1
    have h3 : sendsOf l t (op :: ops) = sendsOf l t [op] + sendsOf l t ops := by
      cases op <;> simp [sendsOf]
    omega

/-- **3. Exactly-once, upper half.** Over any history whatsoever — any dispositions, repeated,
    overlapping, out of order — the send future of a delivery completes at most as many times
    as the delivery was sent: a delivery sent once (and not already waiting) completes at most
    once. -/
theorem completes_at_most_once (second : List Bool) (ops : List Op) (l t : Nat) (h1 : sendsOf l t ops ≤ 1) :
    countRes l t (run (init second) ops).2 ≤ 1 := by
  have := run_count l t ops (init second)
  have h0 : heldN (init second) l t = 0 := by simp [heldN, init]
  omega

/-- **4. Exactly-once, lower half (liveness).** A waiting send whose delivery-id lies in the
    range of a disposition that settles, or reports a terminal state, completes at that
    disposition (with its state, by `own_outcome`). -/
theorem completes (s : St) (h : WF s) (first last : Nat) (hf : first < 4294967296) (settled : Bool) (st : DS)
    (e : Entry) (he : e ∈ s.byId) (hr : InRange first last e.id) (hheld : (e.link, e.tag) ∈ s.unsettled)
    (hs : settled = true ∨ st.terminal = true) :
    Out.resolved e.link e.tag st ∈ (step s (.disp first last settled st)).2 := by
  have hid : e.id ∈ knownIds s.byId first last := (mem_knownIds _ _ _ _ hf h.lt).mpr ⟨⟨e, he, rfl⟩, hr⟩
  have hl := lookup_of_mem s.byId e h.ids he
  unfold step
  cases settled with
  | true => simp only [if_true]; exact settleIds_live st _ s e.id e h.tags hid hl hheld
  | false =>
    have ht : st.terminal = true := by rcases hs with hs | hs; cases hs; exact hs
    simp only [Bool.false_eq_true, if_false, List.mem_append]
    exact Or.inl (updateIds_live st ht _ s [] e.id e h.tags hid hl hheld)

/-- **5. After settlement nothing is retained.** A settled disposition removes every delivery
    it names from the session's routing table and from the link's unsettled map; a terminal
    unsettled one removes it from the unsettled map. -/
theorem settled_forgets (s : St) (h : WF s) (first last : Nat) (hf : first < 4294967296) (st : DS)
    (e : Entry) (he : e ∈ s.byId) (hr : InRange first last e.id) :
    lookup (step s (.disp first last true st)).1.byId e.id = none ∧
    (e.link, e.tag) ∉ (step s (.disp first last true st)).1.unsettled := by
  have hid : e.id ∈ knownIds s.byId first last := (mem_knownIds _ _ _ _ hf h.lt).mpr ⟨⟨e, he, rfl⟩, hr⟩
  have hl := lookup_of_mem s.byId e h.ids he
  simp only [step, if_true]
  exact ⟨settleIds_gone st _ s e.id hid, settleIds_unheld st _ s e.id e hid hl⟩

theorem terminal_forgets (s : St) (h : WF s) (first last : Nat) (hf : first < 4294967296) (st : DS)
    (ht : st.terminal = true) (e : Entry) (he : e ∈ s.byId) (hr : InRange first last e.id) :
    (e.link, e.tag) ∉ (step s (.disp first last false st)).1.unsettled := by
  have hid : e.id ∈ knownIds s.byId first last := (mem_knownIds _ _ _ _ hf h.lt).mpr ⟨⟨e, he, rfl⟩, hr⟩
  have hl := lookup_of_mem s.byId e h.ids he
  simp only [step, Bool.false_eq_true, if_false]
  exact updateIds_unheld st ht _ s [] e.id e hid hl

/-- the settling dispositions among the outputs -/
def echoesOf : List Out → List (Nat × Nat × DS)
  | [] => []
  | .echo f l st :: os => (f, l, st) :: echoesOf os
  | _ :: os => echoesOf os

theorem echoesOf_append (a b : List Out) : echoesOf (a ++ b) = echoesOf a ++ echoesOf b := by
  induction a with
  | nil => rfl
  | cons o os ih => cases o <;> simp [echoesOf, ih]

theorem echoesOf_resolved_only (os : List Out) (h : ∀ o ∈ os, ∃ l t st, o = Out.resolved l t st) : echoesOf os = [] := by
  induction os with
  | nil => rfl
  | cons o os ih =>
    obtain ⟨l, t, st, rfl⟩ := h o (by simp)
    simp [echoesOf, ih (fun o ho => h o (by simp [ho]))]

theorem echoesOf_map (st : DS) (runs : List (Nat × Nat)) :
    echoesOf (runs.map (fun r => Out.echo r.1 r.2 st)) = runs.map (fun r => (r.1, r.2, st)) := by
  induction runs with
  | nil => rfl
  | cons r rs ih => simp [echoesOf, ih]

/-- **6. The settling echo is exact.** For an unsettled disposition the delivery-ids named by
    the settling dispositions the endpoint sends back (each `first..last` expanded in serial
    order, concatenated) are exactly the deliveries the disposition names whose link is in
    rcv-settle-mode second — each once, none other — provided the state is not "in progress";
    every one of them carries the state of the disposition it answers. No run is dropped. -/
theorem echo_exact (s : St) (h : WF s) (hlen : s.byId.length ≤ 2147483648) (first last : Nat)
    (hf : first < 4294967296) (st : DS) :
    ((echoesOf (step s (.disp first last false st)).2).map (fun x => expand (x.1, x.2.1))).flatten =
      (knownIds s.byId first last).filter (wantsEcho st s) ∧
    ∀ x ∈ echoesOf (step s (.disp first last false st)).2, x.2.2 = st := by
  have hklt := knownIds_lt s.byId first last h.lt
  have hknd := knownIds_nodup s.byId first last hf h.ids
  have hkl := knownIds_length s.byId first last hlen
  obtain ⟨_, hruns⟩ := updateIds_runs st (knownIds s.byId first last) s [] (by intro r hr; simp at hr) hklt
    (by simp [expandRuns_nil]; omega)
  rw [echoedIds_eq_filter st _ s hknd, expandRuns_nil, List.nil_append] at hruns
  simp only [step, Bool.false_eq_true, if_false, echoesOf_append, echoesOf_map]
  have hres : echoesOf (updateIds st (knownIds s.byId first last) s []).2.1 = [] := by
    apply echoesOf_resolved_only
    intro o ho
    obtain ⟨e, heq, _⟩ := updateIds_resolved st _ s [] o ho
    exact ⟨e.link, e.tag, st, heq⟩
  rw [hres, List.nil_append]
  constructor
  · rw [← hruns, expandRuns, List.map_map]
    rfl
  · intro x hx
    obtain ⟨r, _, rfl⟩ := List.mem_map.mp hx
    rfl

/-- **7. Every terminal report from a mode-second receiver is answered.** -/
theorem every_terminal_report_is_settled (s : St) (h : WF s) (hlen : s.byId.length ≤ 2147483648) (first last : Nat)
    (hf : first < 4294967296) (st : DS) (ht : st.terminal = true)
    (e : Entry) (he : e ∈ s.byId) (hr : InRange first last e.id) (h2 : isSecond s e.link = true) :
    e.id ∈ ((echoesOf (step s (.disp first last false st)).2).map (fun x => expand (x.1, x.2.1))).flatten := by
  rw [(echo_exact s h hlen first last hf st).1, List.mem_filter]
  refine ⟨(mem_knownIds _ _ _ _ hf h.lt).mpr ⟨⟨e, he, rfl⟩, hr⟩, ?_⟩
  simp [wantsEcho, lookup_of_mem s.byId e h.ids he, h2, terminal_not_inProgress st ht]

/-- … and after that echo the session has forgotten the delivery as well -/
theorem echoed_is_forgotten (s : St) (h : WF s) (first last : Nat) (hf : first < 4294967296) (st : DS)
    (ht : st.terminal = true) (e : Entry) (he : e ∈ s.byId) (hr : InRange first last e.id)
    (h2 : isSecond s e.link = true) :
    lookup (step s (.disp first last false st)).1.byId e.id = none := by
  simp only [step, Bool.false_eq_true, if_false]
  apply updateIds_echo_gone st _ s [] e.id (knownIds_nodup s.byId first last hf h.ids)
    ((mem_knownIds _ _ _ _ hf h.lt).mpr ⟨⟨e, he, rfl⟩, hr⟩)
  simp [wantsEcho, lookup_of_mem s.byId e h.ids he, h2, terminal_not_inProgress st ht]

/-- **8. Nothing is settled on a progress report.** A disposition carrying `received`, or no
    state, is never answered with a settling one, and completes nothing unless it settles. -/
theorem no_echo_in_progress (s : St) (h : WF s) (hlen : s.byId.length ≤ 2147483648) (first last : Nat)
    (hf : first < 4294967296) (st : DS) (hp : st.inProgress = true) :
    echoesOf (step s (.disp first last false st)).2 = [] := by
  have hx := (echo_exact s h hlen first last hf st).1
  have hnone : (knownIds s.byId first last).filter (wantsEcho st s) = [] := by
    apply List.filter_eq_nil_iff.mpr
    intro id _
    unfold wantsEcho
    cases lookup s.byId id <;> simp [hp]
  rw [hnone] at hx
  cases hE : echoesOf (step s (.disp first last false st)).2 with
  | nil => rfl
  | cons x xs =>
    rw [hE] at hx
    simp only [List.map_cons, List.flatten_cons] at hx
    have : (expand (x.1, x.2.1)).length = 0 := by
      have := congrArg List.length hx
      simp only [List.length_append, List.length_nil] at this; omega
    rw [expand_length] at this
    omega

/-! ### what the defects were (the pre-fix behaviours, as refuted statements) -/

/-- the old chunking: cut the echoed ids at the break points between runs — the last run is
    never emitted -/
def oldChunks (ids : List Nat) : List (List Nat) :=
  let breaks := (List.range (ids.length - 1)).filter (fun i => ids.getD (i + 1) 0 ≠ ids.getD i 0 + 1) |>.map (· + 1)
  (breaks.foldl (fun (acc : List (List Nat) × Nat) b => (acc.1 ++ [(ids.drop acc.2).take (b - acc.2)], b)) ([], 0)).1

theorem old_chunking_drops_last_run : oldChunks [5] = [] ∧ oldChunks [5, 6, 9] = [[5, 6]] := by
  decide

-- non-vacuity: a reachable state with two links, ids across the wrap, and a disposition that
-- completes one send, echoes it and leaves the other waiting
example :
    (run (init [true, false])
      [.send 0 0 4294967295 false, .send 1 0 0 false, .send 0 1 1 false, .disp 4294967295 0 false .released]).2 =
      [.resolved 0 0 .released, .resolved 1 0 .released, .echo 4294967295 4294967295 .released] := by
  decide +kernel

/-! ## receiver side -/

/-- the mode a delivery is under is fixed when it arrives: nothing but the arrival of a delivery with
    the same tag changes it -/
theorem mode_stable (s : RSt) (tag : Nat) (op : ROp) (hne : ∀ id pre m, op ≠ .arrive tag id pre m) :
    modeOf (rstep s op).1 tag = modeOf s tag := by
  cases op with
  | arrive t id pre m =>
    cases pre with
    | true => simp [rstep]
    | false =>
      have : t ≠ tag := fun h => hne id false m (by rw [h])
      simp [rstep, modeOf, List.find?, this]
  | dispose t id st =>
    by_cases hc : t ∈ s.unsettled
    · by_cases hm : modeOf s t = true
      · simp [rstep, hc, hm]
      · simp only [rstep, List.contains_iff_mem, hc, if_true, hm, Bool.false_eq_true, if_false]
        rfl
    · simp [rstep, hc]
  | inDisp f l settled => cases settled <;> simp [rstep] <;> rfl

/-- a delivery's mode is the transfer's own if it names one, else the link's -/
theorem mode_at_arrival (s : RSt) (tag id : Nat) (m : Option Bool) :
    modeOf (rstep s (.arrive tag id false m)).1 tag = m.getD s.second := by
  simp [rstep, modeOf, List.find?]

/-- **R1. A delivery under mode second is kept.** Whatever happens — further arrivals, disposals by the
    application (which only report the outcome; disposals of *other* deliveries under mode first
    included), unsettled dispositions, settled dispositions for other deliveries — the delivery stays in
    the receiver's unsettled map until a settled disposition from the sender names it. -/
theorem second_keeps_until_settled (s : RSt) (tag : Nat) (h2 : modeOf s tag = true) (hin : tag ∈ s.unsettled) (op : ROp)
    (hno : ∀ f l, op = .inDisp f l true → ∀ it ∈ s.tracked, inSerialRange f l it.1 = true → it.2 ≠ tag) :
    tag ∈ (rstep s op).1.unsettled := by
  cases op with
  | arrive t id pre m =>
    cases pre <;> simp [rstep, hin]
  | dispose t id st =>
    by_cases hc : t ∈ s.unsettled
    · by_cases hm : modeOf s t = true
      · simp [rstep, hc, hm, hin]
      · have hne : tag ≠ t := fun h => hm (by rw [← h]; exact h2)
        simp [rstep, hc, hm, hin, hne]
    · simp [rstep, hc, hin]
  | inDisp f l settled =>
    cases settled with
    | false => simpa [rstep] using hin
    | true =>
      simp only [rstep, if_true, List.mem_filter]
      refine ⟨hin, ?_⟩
      simp only [Bool.not_eq_true', List.any_eq_false, List.mem_filter, beq_iff_eq, and_imp]
      intro it hit hr
      exact hno f l rfl it hit hr

/-- **R2. The sender's settling disposition ends it**, ranges in serial order included. -/
theorem sender_settlement_forgets (s : RSt) (tag id first last : Nat) (ht : (id, tag) ∈ s.tracked)
    (hr : inSerialRange first last id = true) :
    tag ∉ (rstep s (.inDisp first last true)).1.unsettled := by
  simp only [rstep, if_true, List.mem_filter, not_and, Bool.not_eq_true', Bool.not_eq_false]
  intro _
  simp only [List.any_eq_true, List.mem_filter, beq_iff_eq]
  exact ⟨(id, tag), ⟨ht, hr⟩, rfl⟩

/-- **R3. Under mode first the disposal settles**: the disposition is sent settled and the delivery is
    forgotten at once — decided per delivery, by the mode it arrived under. -/
theorem first_settles_at_disposal (s : RSt) (tag id : Nat) (h1 : modeOf s tag = false) (st : DS) (hin : tag ∈ s.unsettled) :
    (rstep s (.dispose tag id st)).2 = [.disposition id id true st] ∧
    tag ∉ (rstep s (.dispose tag id st)).1.unsettled := by
  simp [rstep, hin, h1]

/-- **R4. Under mode second the outcome is reported unsettled** — even when the deliveries disposed
    of around it are under mode first. -/
theorem second_reports_unsettled (s : RSt) (tag id : Nat) (h2 : modeOf s tag = true) (st : DS) (hin : tag ∈ s.unsettled) :
    rstep s (.dispose tag id st) = (s, [.disposition id id false st]) := by
  simp [rstep, hin, h2]

/-- **R5.** a delivery that is no longer (or was never) unsettled is not reported again -/
theorem settled_not_reported_again (s : RSt) (tag id : Nat) (st : DS) (hout : tag ∉ s.unsettled) :
    rstep s (.dispose tag id st) = (s, []) := by
  simp [rstep, hout]

/-- **R6. the settled flag of every disposition the receiver writes is the negation of the mode of the
    delivery it names** — for every history -/
theorem settled_flag_is_the_mode (s : RSt) (tag id : Nat) (st : DS) :
    ∀ o ∈ (rstep s (.dispose tag id st)).2, o = .disposition id id (!(modeOf s tag)) st := by
  intro o ho
  by_cases hc : tag ∈ s.unsettled
  · by_cases hm : modeOf s tag = true
    · simp [rstep, hc, hm] at ho ⊢; exact ho
    · have hf : modeOf s tag = false := by simpa using hm
      simp [rstep, hc, hf] at ho ⊢; exact ho
  · simp [rstep, hc] at ho

-- non-vacuity: a link in mode second, a delivery that names mode first between two that do not
example :
    (let r := rrun (rinit true) [.arrive 0 10 false none, .arrive 1 11 false (some false), .arrive 2 12 false none,
      .dispose 0 10 .accepted, .dispose 1 11 .accepted, .dispose 2 12 .accepted]
     (r.1.unsettled, r.2)) =
    ([0, 2], [.disposition 10 10 false .accepted, .disposition 11 11 true .accepted, .disposition 12 12 false .accepted]) := by
  decide +kernel

-- non-vacuity: mode second, two deliveries across the wrap, one settled by the sender
example :
    (rrun (rinit true) [.arrive 0 4294967295 false, .arrive 1 0 false, .dispose 0 4294967295 .accepted,
      .dispose 1 0 .rejected, .inDisp 4294967295 4294967295 true]).1.unsettled = [1] := by
  decide +kernel

end Amqp.Settle
