/-
  C02 — the dispositions of a batch disposal name exactly the deliveries of the batch, each once, and
  each disposition's deliveries share the mode that decides its settled flag.
-/
import Amqp.Dispose

namespace Amqp.Dispose
open Amqp.Gen.Settle

theorem source_dispose_shape : sourceShape = true := by decide

/-- specification: the batch cut into maximal runs of joining neighbours -/
def runs : List Info → List (List Info)
  | [] => [[]]
  | [a] => [[a]]
  | a :: b :: rest =>
    match runs (b :: rest) with
    | r :: rs => if joins a b then (a :: r) :: rs else [a] :: r :: rs
    | [] => [[a]]

theorem runs_ne_nil : ∀ (l : List Info), runs l ≠ []
  | [] => by simp [runs]
  | [_] => by simp [runs]
  | a :: b :: rest => by
    have := runs_ne_nil (b :: rest)
    unfold runs
    cases h : runs (b :: rest) with
    | nil => exact absurd h this
    | cons r rs => simp only; split <;> simp

theorem chunkInds_gt : ∀ (l : List Info) (i : Nat), ∀ x ∈ chunkInds i l, i < x
  | [], i => by simp [chunkInds]
  | [_], i => by simp [chunkInds]
  | a :: b :: rest, i => by
    intro x hx
    unfold chunkInds at hx
    split at hx
    · have := chunkInds_gt (b :: rest) (i + 1) x hx; omega
    · simp only [List.mem_cons] at hx
      rcases hx with rfl | hx
      · omega
      · have := chunkInds_gt (b :: rest) (i + 1) x hx; omega

/-- moving the start of the first slice one to the left puts one more element in front of it -/
theorem slices_shift (L : List Info) (i : Nat) (a : Info) (hL : L.drop i = a :: L.drop (i + 1)) :
    ∀ (inds : List Nat), (∀ x ∈ inds, i + 1 < x) →
      slices L i inds = (match slices L (i + 1) inds with
        | r :: rs => (a :: r) :: rs
        | [] => []) := by
  intro inds h
  cases inds with
  | nil => simp [slices, hL]
  | cons ind inds =>
    have hi : i + 1 < ind := h ind (by simp)
    simp only [slices, hL]
    have : ind - i = (ind - (i + 1)) + 1 := by omega
    rw [this, List.take_succ_cons]

theorem slices_runs : ∀ (l pre : List Info),
    slices (pre ++ l) pre.length (chunkInds pre.length l) = runs l
  | [], pre => by simp [chunkInds, slices, runs]
  | [a], pre => by simp [chunkInds, slices, runs]
  | a :: b :: rest, pre => by
    have ih := slices_runs (b :: rest) (pre ++ [a])
    have hL : pre ++ [a] ++ b :: rest = pre ++ a :: b :: rest := by simp
    rw [hL] at ih
    have hlen : (pre ++ [a]).length = pre.length + 1 := by simp
    rw [hlen] at ih
    have hdrop : (pre ++ a :: b :: rest).drop pre.length = a :: (pre ++ a :: b :: rest).drop (pre.length + 1) := by
      rw [List.drop_append_of_le_length (Nat.le_refl _), List.drop_length, List.nil_append]
      have : (pre ++ a :: b :: rest).drop (pre.length + 1) = b :: rest := by
        rw [← hL, ← hlen, List.drop_append_of_le_length (Nat.le_refl _), List.drop_length, List.nil_append]
      rw [this]
    unfold chunkInds runs
    have hne := runs_ne_nil (b :: rest)
    cases hr : runs (b :: rest) with
    | nil => exact absurd hr hne
    | cons r rs =>
      rw [hr] at ih
      by_cases hj : joins a b = true
      · simp only [hj, if_true]
        rw [slices_shift _ _ a hdrop _ (fun x hx => chunkInds_gt (b :: rest) (pre.length + 1) x hx), ih]
      · simp only [hj, if_false, Bool.false_eq_true]
        simp only [slices, hdrop, ih]
        have : pre.length + 1 - pre.length = 1 := by omega
        rw [this]; simp

/-- `dispose_all`'s walk over the indices yields the runs -/
theorem walk_is_runs (infos : List Info) : slices infos 0 (chunkInds 0 infos) = runs infos := by
  have := slices_runs infos []
  simpa using this

theorem runs_flatten : ∀ (l : List Info), (runs l).flatten = l
  | [] => by simp [runs]
  | [_] => by simp [runs]
  | a :: b :: rest => by
    have ih := runs_flatten (b :: rest)
    unfold runs
    cases hr : runs (b :: rest) with
    | nil => exact absurd hr (runs_ne_nil _)
    | cons r rs =>
      rw [hr] at ih
      simp only
      split <;> simp [← ih]

/-- neighbours in a run join -/
def Joined : List Info → Prop
  | [] => True
  | [_] => True
  | a :: b :: rest => joins a b = true ∧ Joined (b :: rest)

theorem runs_joined : ∀ (l : List Info), ∀ r ∈ runs l, Joined r ∧ (l ≠ [] → r ≠ [])
  | [] => by simp [runs, Joined]
  | [_] => by simp [runs, Joined]
  | a :: b :: rest => by
    have ih := runs_joined (b :: rest)
    unfold runs
    cases hr : runs (b :: rest) with
    | nil => exact absurd hr (runs_ne_nil _)
    | cons r rs =>
      rw [hr] at ih
      have hrj := ih r (by simp)
      have hrne : r ≠ [] := hrj.2 (by simp)
      -- the first run of `b :: rest` begins with `b`
      have hhead : ∃ r', r = b :: r' := by
        have hf := runs_flatten (b :: rest)
        rw [hr] at hf
        cases r with
        | nil => exact absurd rfl hrne
        | cons x r' =>
          simp only [List.flatten_cons, List.cons_append, List.cons.injEq] at hf
          exact ⟨r', by rw [hf.1]⟩
      obtain ⟨r', rfl⟩ := hhead
      simp only
      split
      · rename_i hj
        intro q hq
        simp only [List.mem_cons] at hq
        rcases hq with rfl | hq
        · exact ⟨⟨hj, hrj.1⟩, fun _ => by simp⟩
        · have := ih q (by simp [hq]); exact ⟨this.1, fun _ => this.2 (by simp)⟩
      · intro q hq
        simp only [List.mem_cons] at hq
        rcases hq with rfl | rfl | hq
        · exact ⟨trivial, fun _ => by simp⟩
        · exact ⟨hrj.1, fun _ => by simp⟩
        · have := ih q (by simp [hq]); exact ⟨this.1, fun _ => this.2 (by simp)⟩

theorem joins_spec (a b : Info) (h : joins a b = true) : b.id = a.id + 1 ∧ a.mode = b.mode := by
  simp only [joins, is_consecutive.value, psub32, Bool.and_eq_true, beq_iff_eq] at h
  exact ⟨by omega, h.2⟩

/-- in a run the ids count up from the first one and the mode is the first one's -/
theorem joined_ids : ∀ (r : List Info) (a : Info), Joined (a :: r) →
    (a :: r).map (·.id) = List.range' a.id (r.length + 1) ∧
    ((a :: r).getLast (by simp)).id = a.id + r.length ∧
    ∀ x ∈ a :: r, x.mode = a.mode
  | [], a, _ => by simp [List.range']
  | b :: rest, a, h => by
    obtain ⟨hj, hrest⟩ := h
    obtain ⟨hid, hmode⟩ := joins_spec a b hj
    obtain ⟨i1, i2, i3⟩ := joined_ids rest b hrest
    refine ⟨?_, ?_, ?_⟩
    · simp only [List.map_cons] at i1 ⊢
      rw [i1, hid]
      simp [List.range'_succ]
    · rw [List.getLast_cons (by simp), i2, hid]; simp; omega
    · intro x hx
      simp only [List.mem_cons] at hx
      rcases hx with rfl | hx
      · rfl
      · rw [i3 x (by simpa using hx), hmode]

/-- **run_named_exactly.** The disposition written for a run names the ids of the run's deliveries, in
    order, and nothing else; every delivery of the run has the mode the disposition's settled flag is
    taken from. -/
theorem run_named_exactly (r : List Info) (hj : Joined r) (d : Disp) (hd : dispOf r = some d) :
    named d = r.map (·.id) ∧ ∀ x ∈ r, x.mode = d.mode := by
  cases r with
  | nil => simp [dispOf] at hd
  | cons a rest =>
    simp only [dispOf, Option.some.injEq] at hd
    subst hd
    obtain ⟨i1, i2, i3⟩ := joined_ids rest a hj
    refine ⟨?_, i3⟩
    simp only [named, i2]
    rw [i1]
    congr 1
    omega

theorem flatMap_named : ∀ (rs : List (List Info)), (∀ r ∈ rs, Joined r) →
    (rs.filterMap dispOf).flatMap named = rs.flatten.map (·.id)
  | [], _ => by simp
  | r :: rs, h => by
    have ih := flatMap_named rs (fun q hq => h q (by simp [hq]))
    cases r with
    | nil => simp only [List.filterMap_cons, dispOf, List.flatten_cons, List.nil_append]; exact ih
    | cons a rest =>
      have hd : dispOf (a :: rest) = some ⟨a.id, ((a :: rest).getLast (by simp)).id, a.mode⟩ := rfl
      obtain ⟨e, _⟩ := run_named_exactly (a :: rest) (h _ (by simp)) _ hd
      simp only [List.filterMap_cons, hd, List.flatMap_cons, e, ih, List.flatten_cons, List.map_append]

/-- **batch_named_exactly (C02).** Whatever deliveries a batch disposal is given — in any order after the
    sort, with gaps, with neighbours of different rcv-settle-modes, with the same delivery twice — the
    dispositions `dispose_all` writes name, read in order, exactly the deliveries of the batch: every one
    of them once per occurrence, none that is not in the batch. -/
theorem batch_named_exactly (infos : List Info) :
    (disposeAll infos).flatMap named = infos.map (·.id) := by
  unfold disposeAll
  rw [walk_is_runs, flatMap_named _ (fun r hr => (runs_joined infos r hr).1), runs_flatten]

/-- **batch_modes_uniform (C02).** Every delivery of the batch is named by a disposition whose
    settled flag is derived from that delivery's own rcv-settle-mode. -/
theorem batch_modes_uniform (infos : List Info) :
    ∀ r ∈ slices infos 0 (chunkInds 0 infos), ∀ d, dispOf r = some d → ∀ x ∈ r, x.mode = d.mode := by
  intro r hr d hd
  rw [walk_is_runs] at hr
  exact (run_named_exactly r (runs_joined infos r hr).1 d hd).2

/-- **batch_named_full (C02).** From the call on: whatever deliveries the application passes, in whatever
    order, the dispositions written name — up to order — exactly those of them that are still in the
    unsettled map, each once per occurrence. -/
theorem batch_named_full (infos : List Info) (unsettled : Info → Bool) :
    ((disposeAllFull infos unsettled).flatMap named).Perm ((infos.filter unsettled).map (·.id)) := by
  unfold disposeAllFull
  rw [batch_named_exactly]
  exact ((List.mergeSort_perm infos _).filter unsettled).map _

/-- non-vacuity: ids 3 4 5 with a mode change after 4, a gap, then 9 twice -/
example : disposeAll [⟨3, none⟩, ⟨4, none⟩, ⟨5, some true⟩, ⟨9, none⟩, ⟨9, none⟩] =
    [⟨3, 4, none⟩, ⟨5, 5, some true⟩, ⟨9, 9, none⟩, ⟨9, 9, none⟩] := by decide
/-- a chunking that ignored the mode (a seeded change of an earlier round) would put 5 under 3's flag -/
example : (disposeAll [⟨3, none⟩, ⟨4, none⟩, ⟨5, some true⟩]).length = 2 := by decide


end Amqp.Dispose
