/-
  C16 — cancelling a pending send or recv loses nothing and corrupts nothing.
-/
import Amqp.Cancel

namespace Amqp.Cancel
open Amqp.Gen.Cancel

/-! ## the facts the models rest on, as the source has them now -/

theorem source_send_is_atomic : atomicPath = true := by decide
theorem source_recv_parks : recvParks = true := by decide +kernel
theorem source_topup_reset_last : topupResetLast = true := by decide

/-! ## frames -/

theorem frames_length (k t : Nat) : (frames k t).length = t := by simp [frames]

theorem wholeOf_append (a b : List (Nat × Nat)) : wholeOf (a ++ b) = wholeOf a ++ wholeOf b := by
  simp [wholeOf, List.flatMap_append]

theorem wholeOf_single (k t : Nat) : wholeOf [(k, t)] = frames k t := by simp [wholeOf]

theorem transfers_pos (m len : Nat) : 0 < transfers m len := by
  unfold transfers transfer_count.value
  split
  · omega
  · rename_i h
    simp only [Bool.or_eq_true, beq_iff_eq, decide_eq_true_eq, not_or] at h
    have hm : 0 < m := by omega
    have : m ≤ len + m - 1 := by omega
    exact Nat.div_pos this hm

/-- a message that needs no cut is one transfer -/
theorem transfers_one (m len : Nat) (h : m = 0 ∨ len ≤ m) : transfers m len = 1 := by
  unfold transfers transfer_count.value
  rcases h with h | h <;> simp [h]

/-- the cut pieces cover the message: `t` pieces of at most `m` bytes, the first `t-1` full -/
theorem transfers_cover (m len : Nat) (hm : 0 < m) (h : m < len) :
    (transfers m len - 1) * m < len ∧ len ≤ transfers m len * m := by
  unfold transfers transfer_count.value
  have h1 : ¬ ((m == 0) || decide (len ≤ m)) = true := by
    simp only [Bool.or_eq_true, beq_iff_eq, decide_eq_true_eq, not_or]; omega
  simp only [h1, Bool.false_eq_true, if_false]
  have hdiv := Nat.div_add_mod (len + m - 1) m
  have hmod := Nat.mod_lt (len + m - 1) hm
  have hq : 1 ≤ (len + m - 1) / m := Nat.div_pos (by omega) hm
  constructor
  · have : ((len + m - 1) / m - 1) * m = m * ((len + m - 1) / m) - m := by
      rw [Nat.sub_mul, Nat.one_mul, Nat.mul_comm]
    rw [this]; omega
  · rw [Nat.mul_comm]; omega

/-! ## send -/

def pendingK : Option Cur → List Nat
  | some ⟨k, _, _, none⟩ => [k]
  | _ => []

structure Inv (s : St) : Prop where
  /-- what has left the link, plus what the send in progress still owes, is whole deliveries -/
  sent : s.sent ++ owed s.cur = wholeOf s.begun
  /-- the delivery-count advanced once per delivery begun -/
  dc : s.dc = s.begun.length
  /-- no credit is used up otherwise -/
  credit : s.credit + s.dc = s.granted
  /-- the reserve-then-commit path never holds a credit across an await -/
  atomicNone : ∀ c, s.cur = some c → c.atomic = true → c.pushed = none
  /-- deliveries begin in the order of the calls, each at most once -/
  order : List.Sublist (s.begun.map (·.1) ++ pendingK s.cur) s.started
  /-- a send that returned has its delivery begun -/
  doneBegun : ∀ k ∈ s.done, k ∈ s.begun.map (·.1)
  /-- so has one that took its credit -/
  curBegun : ∀ c i, s.cur = some c → c.pushed = some i → c.k ∈ s.begun.map (·.1)

theorem inv_init (cap m : Nat) : Inv (init cap m) := by
  refine ⟨?_, rfl, rfl, ?_, ?_, ?_, ?_⟩ <;> simp [init, St.sent, owed, wholeOf, pendingK]

theorem drop_take_drop (l : List Fr) (i n : Nat) : (l.drop i).take n ++ l.drop (i + n) = l.drop i := by
  have := List.take_append_drop n (l.drop i)
  rw [List.drop_drop] at this
  exact this

/-- what the per-transfer path does in one poll -/
theorem pushSome_spec (s : St) (c : Cur) (i : Nat) :
    (pushSome s c i).sent ++ owed (pushSome s c i).cur = s.sent ++ (frames c.k c.t).drop i ∧
    (pushSome s c i).dc = s.dc ∧ (pushSome s c i).credit = s.credit ∧ (pushSome s c i).begun = s.begun ∧
    (pushSome s c i).granted = s.granted ∧ (pushSome s c i).started = s.started ∧
    (((pushSome s c i).cur = none ∧ (pushSome s c i).done = s.done ++ [c.k]) ∨
     (∃ j, (pushSome s c i).cur = some { c with pushed := some j } ∧ (pushSome s c i).done = s.done)) := by
  by_cases h : i + Nat.min (c.t - i) (s.cap - s.q.length) = c.t
  · have hp : pushSome s c i = { s with q := s.q ++ ((frames c.k c.t).drop i).take (Nat.min (c.t - i) (s.cap - s.q.length)), cur := none, done := s.done ++ [c.k] } := by
      simp only [pushSome, h, if_true]
    rw [hp]
    refine ⟨?_, rfl, rfl, rfl, rfl, rfl, Or.inl ⟨rfl, rfl⟩⟩
    simp only [St.sent, owed, List.append_nil, List.append_assoc]
    have := drop_take_drop (frames c.k c.t) i (Nat.min (c.t - i) (s.cap - s.q.length))
    rw [h] at this
    have hnil : (frames c.k c.t).drop c.t = [] := by
      apply List.drop_eq_nil_of_le; simp [frames_length]
    rw [hnil, List.append_nil] at this
    rw [this]
  · have hp : pushSome s c i = { s with q := s.q ++ ((frames c.k c.t).drop i).take (Nat.min (c.t - i) (s.cap - s.q.length)), cur := some { c with pushed := some (i + Nat.min (c.t - i) (s.cap - s.q.length)) } } := by
      simp only [pushSome, h, if_false]
    rw [hp]
    refine ⟨?_, rfl, rfl, rfl, rfl, rfl, Or.inr ⟨_, rfl, rfl⟩⟩
    simp only [St.sent, owed, List.append_assoc]
    rw [drop_take_drop]

theorem pendingK_pushed (c : Cur) (j : Nat) : pendingK (some { c with pushed := some j }) = [] := by
  simp [pendingK]

theorem inv_pushSome (s : St) (c : Cur) (i : Nat) (hna : c.atomic = false)
    (hsent : s.sent ++ (frames c.k c.t).drop i = wholeOf s.begun)
    (hdc : s.dc = s.begun.length) (hcr : s.credit + s.dc = s.granted)
    (hord : List.Sublist (s.begun.map (·.1)) s.started)
    (hdone : ∀ k ∈ s.done, k ∈ s.begun.map (·.1))
    (hk : c.k ∈ s.begun.map (·.1)) : Inv (pushSome s c i) := by
  obtain ⟨h1, h2, h3, h4, h5, h6, h7⟩ := pushSome_spec s c i
  refine ⟨?_, ?_, ?_, ?_, ?_, ?_, ?_⟩
  · rw [h1, h4]; exact hsent
  · rw [h2, h4]; exact hdc
  · rw [h2, h3, h5]; exact hcr
  · intro c' hc' ha
    rcases h7 with ⟨hn, _⟩ | ⟨j, hj, _⟩
    · rw [hn] at hc'; cases hc'
    · rw [hj] at hc'; cases hc'; simp [hna] at ha
  · rw [h4, h6]
    rcases h7 with ⟨hn, _⟩ | ⟨j, hj, _⟩
    · rw [hn]; simpa [pendingK] using hord
    · rw [hj, pendingK_pushed]; simpa using hord
  · rw [h4]
    rcases h7 with ⟨_, hd⟩ | ⟨j, _, hd⟩
    · rw [hd]; intro k hk'
      rcases List.mem_append.mp hk' with h | h
      · exact hdone k h
      · simp at h; rw [h]; exact hk
    · rw [hd]; exact hdone
  · rw [h4]
    intro c' i' hc' _
    rcases h7 with ⟨hn, _⟩ | ⟨j, hj, _⟩
    · rw [hn] at hc'; cases hc'
    · rw [hj] at hc'; cases hc'; exact hk

theorem inv_poll (s : St) (h : Inv s) : Inv (poll s) := by
  unfold poll
  cases hc : s.cur with
  | none => simpa [hc] using h
  | some c =>
    simp only
    by_cases ha : c.atomic = true
    · simp only [ha, if_true]
      have hp := h.atomicNone c hc ha
      by_cases hroom : 1 ≤ s.credit ∧ s.q.length + c.t ≤ s.cap
      · simp only [hroom, and_self, if_true]
        have hs := h.sent
        have ho : owed s.cur = [] := by
          rw [hc]; obtain ⟨k, t, a, p⟩ := c; simp at hp; subst hp; rfl
        rw [ho, List.append_nil] at hs
        have hord := h.order
        have hpk : pendingK s.cur = [c.k] := by
          rw [hc]; obtain ⟨k, t, a, p⟩ := c; simp at hp; subst hp; rfl
        refine ⟨?_, ?_, ?_, ?_, ?_, ?_, ?_⟩
        · simp only [St.sent, owed, List.append_nil]
          rw [wholeOf_append, wholeOf_single, ← hs]; simp [St.sent]
        · simp [h.dc]
        · have := h.credit; simp only; omega
        · intro c' hc'; cases hc'
        · simp only [pendingK, List.append_nil, List.map_append, List.map_cons, List.map_nil]
          rw [hpk] at hord; exact hord
        · intro k hk
          simp only [List.map_append, List.map_cons, List.map_nil, List.mem_append, List.mem_singleton]
          rcases List.mem_append.mp hk with hk | hk
          · exact Or.inl (h.doneBegun k hk)
          · simp at hk; exact Or.inr hk
        · intro c' i' hc'; cases hc'
      · simp only [hroom, if_false]; exact h
    · have ha' : c.atomic = false := by simpa using ha
      simp only [ha', Bool.false_eq_true, if_false]
      cases hp : c.pushed with
      | none =>
        simp only
        by_cases hcr : 1 ≤ s.credit
        · simp only [hcr, if_true]
          have hs := h.sent
          have ho : owed s.cur = [] := by
            rw [hc]; obtain ⟨k, t, a, p⟩ := c; simp at hp; subst hp; rfl
          have hpk : pendingK s.cur = [c.k] := by
            rw [hc]; obtain ⟨k, t, a, p⟩ := c; simp at hp; subst hp; rfl
          rw [ho, List.append_nil] at hs
          apply inv_pushSome _ c 0 ha'
          · simp only [St.sent, List.drop_zero]
            rw [wholeOf_append, wholeOf_single, ← hs]; simp [St.sent]
          · simp [h.dc]
          · have := h.credit; simp only; omega
          · have := h.order; rw [hpk] at this; simpa using this
          · intro k hk
            simp only [List.map_append, List.map_cons, List.map_nil, List.mem_append, List.mem_singleton]
            exact Or.inl (h.doneBegun k hk)
          · simp
        · simp only [hcr, if_false]; exact h
      | some i =>
        simp only
        have ho : owed s.cur = (frames c.k c.t).drop i := by
          rw [hc]; obtain ⟨k, t, a, p⟩ := c; simp at hp; subst hp; rfl
        have hpk : pendingK s.cur = [] := by
          rw [hc]; obtain ⟨k, t, a, p⟩ := c; simp at hp; subst hp; rfl
        apply inv_pushSome s c i ha'
        · rw [← ho]; exact h.sent
        · exact h.dc
        · exact h.credit
        · have := h.order; rw [hpk] at this; simpa using this
        · exact h.doneBegun
        · exact h.curBegun c i hc hp

/-- one step keeps the invariant unless it is a harmful cancel -/
theorem inv_step (s : St) (e : Ev) (h : Inv s) (hh : harmful s e = false) : Inv (step s e) := by
  cases e with
  | start k len =>
    simp only [step]
    cases hc : s.cur with
    | some c => simpa [hc] using h
    | none =>
      simp only
      have hs := h.sent
      rw [hc] at hs
      refine ⟨?_, h.dc, h.credit, ?_, ?_, h.doneBegun, ?_⟩
      · simpa [St.sent, owed] using hs
      · intro c' hc' _; cases hc'; rfl
      · have := h.order
        rw [hc] at this
        simp only [pendingK, List.append_nil] at this ⊢
        exact List.Sublist.append this (List.Sublist.refl _)
      · intro c' i hc' hp; cases hc'; simp at hp
  | poll => exact inv_poll s h
  | cancel =>
    simp only [step]
    have ho : owed s.cur = [] := by
      cases hc : s.cur with
      | none => rfl
      | some c =>
        obtain ⟨k, t, a, p⟩ := c
        cases p with
        | none => rfl
        | some i => simp [harmful, hc] at hh
    have hs := h.sent
    rw [ho, List.append_nil] at hs
    refine ⟨?_, h.dc, h.credit, ?_, ?_, h.doneBegun, ?_⟩
    · simpa [St.sent, owed] using hs
    · intro c' hc'; cases hc'
    · have := h.order
      simp only [pendingK, List.append_nil]
      exact List.Sublist.trans (List.sublist_append_left _ _) this
    · intro c' i hc'; cases hc'
  | grant n =>
    simp only [step]
    refine ⟨h.sent, h.dc, ?_, h.atomicNone, h.order, h.doneBegun, h.curBegun⟩
    have := h.credit; simp only; omega
  | drain n =>
    simp only [step]
    refine ⟨?_, h.dc, h.credit, h.atomicNone, h.order, h.doneBegun, h.curBegun⟩
    have := h.sent
    simp only [St.sent, List.append_assoc] at this ⊢
    rw [← List.append_assoc (s.q.take n), List.take_append_drop]; exact this

theorem inv_run (evs : List Ev) : ∀ (s : St), Inv s → harmless s evs = true → Inv (run s evs) := by
  induction evs with
  | nil => intro s h _; exact h
  | cons e es ih =>
    intro s h hh
    simp only [harmless, Bool.and_eq_true, Bool.not_eq_true'] at hh
    exact ih (step s e) (inv_step s e h hh.1) hh.2

/-- dropping a send that goes the reserve-then-commit way is never harmful -/
theorem atomic_cancel_harmless (s : St) (h : Inv s) (c : Cur) (hc : s.cur = some c) (ha : c.atomic = true) :
    harmful s .cancel = false := by
  have := h.atomicNone c hc ha
  obtain ⟨k, t, a, p⟩ := c
  simp at this; subst this
  simp [harmful, hc]

/-- every send of the run fits the queue -/
def allFit (cap m : Nat) : List Ev → Bool
  | [] => true
  | .start _ len :: es => fits (transfers m len) cap && allFit cap m es
  | _ :: es => allFit cap m es

def CurAtomic (s : St) : Prop := ∀ c, s.cur = some c → c.atomic = true

theorem pushSome_cur (s : St) (c : Cur) (i : Nat) : ∀ c', (pushSome s c i).cur = some c' → c'.atomic = c.atomic := by
  intro c' h
  rcases (pushSome_spec s c i).2.2.2.2.2.2 with ⟨hn, _⟩ | ⟨j, hj, _⟩
  · rw [hn] at h; cases h
  · rw [hj] at h; cases h; rfl

theorem curAtomic_step (s : St) (e : Ev) (h : CurAtomic s)
    (hfit : ∀ k len, e = .start k len → fits (transfers s.maxMsg len) s.cap = true) : CurAtomic (step s e) := by
  cases e with
  | start k len =>
    simp only [step]
    cases hc : s.cur with
    | some c => simpa [hc] using h
    | none =>
      intro c' hc'
      simp only [Option.some.injEq] at hc'
      subst hc'
      simp [source_send_is_atomic, hfit k len rfl]
  | poll =>
    simp only [step]
    intro c' hc'
    unfold poll at hc'
    cases hc : s.cur with
    | none => simp [hc] at hc'
    | some c =>
      have ha := h c hc
      simp only [hc, ha, if_true] at hc'
      split at hc'
      · cases hc'
      · rw [hc] at hc'; cases hc'; exact ha
  | cancel => intro c' hc'; cases hc'
  | grant n => exact h
  | drain n => exact h

theorem pushSome_params (s : St) (c : Cur) (i : Nat) :
    (pushSome s c i).cap = s.cap ∧ (pushSome s c i).maxMsg = s.maxMsg := by
  by_cases h : i + Nat.min (c.t - i) (s.cap - s.q.length) = c.t <;> simp [pushSome, h]

theorem poll_params (s : St) : (poll s).cap = s.cap ∧ (poll s).maxMsg = s.maxMsg := by
  unfold poll
  cases hc : s.cur with
  | none => simp
  | some c =>
    simp only
    by_cases ha : c.atomic = true
    · simp only [ha, if_true]
      by_cases hroom : 1 ≤ s.credit ∧ s.q.length + c.t ≤ s.cap
      · simp [hroom]
      · simp [hroom]
    · have ha' : c.atomic = false := by simpa using ha
      simp only [ha', Bool.false_eq_true, if_false]
      cases hp : c.pushed with
      | none =>
        simp only
        by_cases hcr : 1 ≤ s.credit
        · simp only [hcr, if_true]
          exact pushSome_params _ c 0
        · simp [hcr]
      | some i => exact pushSome_params s c i

theorem step_params (s : St) (e : Ev) : (step s e).cap = s.cap ∧ (step s e).maxMsg = s.maxMsg := by
  cases e with
  | start k len => simp only [step]; split <;> simp
  | poll => exact poll_params s
  | cancel => simp [step]
  | grant n => simp [step]
  | drain n => simp [step]

theorem harmless_of_allFit (evs : List Ev) : ∀ (s : St), Inv s → CurAtomic s → allFit s.cap s.maxMsg evs = true →
    harmless s evs = true := by
  induction evs with
  | nil => intro s _ _ _; rfl
  | cons e es ih =>
    intro s h ha hf
    have hharm : harmful s e = false := by
      cases e with
      | cancel =>
        cases hc : s.cur with
        | none => simp [harmful, hc]
        | some c => exact atomic_cancel_harmless s h c hc (ha c hc)
      | _ => rfl
    have hfit : ∀ k len, e = .start k len → fits (transfers s.maxMsg len) s.cap = true := by
      intro k len he; subst he
      simp only [allFit, Bool.and_eq_true] at hf; exact hf.1
    have hrest : allFit (step s e).cap (step s e).maxMsg es = true := by
      rw [(step_params s e).1, (step_params s e).2]
      cases e <;> simp only [allFit, Bool.and_eq_true] at hf <;> first | exact hf.2 | exact hf
    simp only [harmless, hharm, Bool.not_false, Bool.true_and]
    exact ih (step s e) (inv_step s e h hharm) (curAtomic_step s e ha hfit) hrest

/-- **cancelling a send corrupts nothing.**  Whatever the calls, polls, drops, credit grants and
    the pace of the session engine: as long as each delivery fits the link-to-session queue,
    what has left the link is whole deliveries only (never a part of one), each of a distinct
    call and in the order of the calls; the delivery-count advanced exactly once per delivery
    that went out, so a dropped send used up no credit; and every send that returned is among them. -/
theorem send_cancel_safe (cap m : Nat) (evs : List Ev) (hf : allFit cap m evs = true) :
    let s := run (init cap m) evs
    s.sent = wholeOf s.begun ∧
    s.dc = s.begun.length ∧
    s.credit + s.begun.length = s.granted ∧
    List.Sublist (s.begun.map (·.1)) s.started ∧
    (∀ k ∈ s.done, k ∈ s.begun.map (·.1)) := by
  intro s
  have hinit : CurAtomic (init cap m) := by intro c hc; simp [init] at hc
  have hh := harmless_of_allFit evs (init cap m) (inv_init cap m) hinit hf
  have h : Inv s := inv_run evs _ (inv_init cap m) hh
  have hcur : owed s.cur = [] := by
    cases hc : s.cur with
    | none => rfl
    | some c =>
      -- an atomic send holds nothing
      have hat : CurAtomic s := by
        clear hh h
        suffices ∀ (evs : List Ev) (s0 : St), CurAtomic s0 → allFit s0.cap s0.maxMsg evs = true → CurAtomic (run s0 evs) from
          this evs _ hinit hf
        intro evs
        induction evs with
        | nil => intro s0 h0 _; exact h0
        | cons e es ih =>
          intro s0 h0 hf0
          have hfit : ∀ k len, e = .start k len → fits (transfers s0.maxMsg len) s0.cap = true := by
            intro k len he; subst he
            simp only [allFit, Bool.and_eq_true] at hf0; exact hf0.1
          have hrest : allFit (step s0 e).cap (step s0 e).maxMsg es = true := by
            rw [(step_params s0 e).1, (step_params s0 e).2]
            cases e <;> simp only [allFit, Bool.and_eq_true] at hf0 <;> first | exact hf0.2 | exact hf0
          exact ih (step s0 e) (curAtomic_step s0 e h0 hfit) hrest
      have := h.atomicNone c hc (hat c hc)
      obtain ⟨k, t, a, p⟩ := c
      simp at this; subst this; rfl
  have hs := h.sent
  rw [hcur, List.append_nil] at hs
  refine ⟨hs, h.dc, ?_, ?_, h.doneBegun⟩
  · have := h.credit; rw [h.dc] at this; exact this
  · exact List.Sublist.trans (List.sublist_append_left _ _) h.order

/-- at most once and in order: with the calls numbered upwards, so are the deliveries -/
theorem send_order (cap m : Nat) (evs : List Ev) (hf : allFit cap m evs = true)
    (hs : (run (init cap m) evs).started.Pairwise (· < ·)) :
    ((run (init cap m) evs).begun.map (·.1)).Pairwise (· < ·) :=
  List.Pairwise.sublist (send_cancel_safe cap m evs hf).2.2.2.1 hs

/-- the general statement, also for deliveries that do not fit: nothing is corrupted as long as
    no future is dropped between its credit and its last transfer -/
theorem send_safe_unless_cut (cap m : Nat) (evs : List Ev) (hh : harmless (init cap m) evs = true) :
    let s := run (init cap m) evs
    s.sent ++ owed s.cur = wholeOf s.begun ∧ s.dc = s.begun.length ∧ s.credit + s.begun.length = s.granted := by
  intro s
  have h : Inv s := inv_run evs _ (inv_init cap m) hh
  refine ⟨h.sent, h.dc, ?_⟩
  have := h.credit; rw [h.dc] at this; exact this

/-- **later sends are not starved.**  A send that fits completes at the first poll at which a
    credit is there and the engine has made room; the queue empties under `drain`, and credit
    is only ever used by deliveries that went out (`send_cancel_safe`). -/
theorem send_completes (s : St) (c : Cur) (hc : s.cur = some c) (ha : c.atomic = true)
    (hcr : 1 ≤ s.credit) (hroom : s.q.length + c.t ≤ s.cap) :
    (poll s).cur = none ∧ c.k ∈ (poll s).done ∧ (poll s).sent = s.sent ++ frames c.k c.t := by
  unfold poll
  simp [hc, ha, hcr, hroom, St.sent]

theorem drain_makes_room (s : St) (c : Cur) (hfit : c.t ≤ s.cap) :
    (step s (.drain s.q.length)).q.length + c.t ≤ (step s (.drain s.q.length)).cap := by
  simp [step]; exact hfit

/-- the known residue: a delivery of more transfers than the queue holds is cut short by a drop -/
theorem oversize_cancel_cuts :
    let s := run (init 1 64) [.start 0 150, .grant 1, .poll, .cancel]
    s.sent = [⟨0, 0, 3⟩] ∧ isWhole s.sent = false ∧ s.dc = 1 := by decide

/-- … and the same calls with a queue that holds the delivery leave nothing behind -/
example : let s := run (init 4 64) [.start 0 150, .grant 1, .drain 0, .cancel, .start 1 10, .poll]
    s.sent = [⟨1, 0, 1⟩] ∧ s.dc = 1 ∧ s.credit = 0 := by decide

/-- non-vacuity: a run with a drop in the middle that satisfies the premises and delivers -/
example : allFit 2 64 [.start 0 100, .poll, .cancel, .grant 2, .start 1 100, .poll, .drain 2, .start 2 10, .poll] = true ∧
    (run (init 2 64) [.start 0 100, .poll, .cancel, .grant 2, .start 1 100, .poll, .drain 2, .start 2 10, .poll]).sent
      = [⟨1, 0, 2⟩, ⟨1, 1, 2⟩, ⟨2, 0, 1⟩] := by decide

/-! ## recv -/

structure RInv (s : RSt) : Prop where
  /-- everything that arrived is accounted for, in order, once -/
  account : s.account = s.arrived
  /-- the future holds no transfer across an await -/
  held : s.held = none
  /-- nothing went with a dropped future -/
  lost : s.lost = []
  /-- what was returned are whole deliveries -/
  whole : ∀ d ∈ s.returned, WholeD d
  /-- the delivery being put together has no last transfer yet -/
  partialOpen : ∀ g ∈ s.partialD, g.last = false

theorem rinv_init (auto : Bool) (cap : Nat) : RInv (rinit auto cap) := by
  refine ⟨rfl, rfl, rfl, ?_, ?_⟩ <;> simp [rinit]

/-- taking the next transfer: it stood right after the delivery being put together -/
theorem rtake_spec (s : RSt) (hh : s.held = none) (f : Fr) (s1 : RSt) (h : rtake s = some (f, s1)) :
    s.account = s1.returned.flatten ++ s1.partialD ++ [f] ++ s1.incoming ∧
    s1.parked = none ∧ s1.held = none ∧ s1.returned = s.returned ∧ s1.partialD = s.partialD ∧
    s1.arrived = s.arrived ∧ s1.lost = s.lost := by
  unfold rtake at h
  cases hp : s.parked with
  | some g =>
    simp only [hp, Option.some.injEq, Prod.mk.injEq] at h
    obtain ⟨rfl, rfl⟩ := h
    -- taken from the park: by the order of `account`, nothing stood between
    refine ⟨?_, rfl, hh, rfl, rfl, rfl, rfl⟩
    simp [RSt.account, hp, hh]
  | none =>
    simp only [hp, hh] at h
    cases hi : s.incoming with
    | nil => simp [hi] at h
    | cons g rest =>
      simp only [hi, Option.some.injEq, Prod.mk.injEq] at h
      obtain ⟨rfl, rfl⟩ := h
      refine ⟨?_, rfl, rfl, rfl, rfl, rfl, rfl⟩
      simp [RSt.account, hp, hh, hi]

theorem rfinish_inv (f : Fr) (s1 : RSt) (arr : List Fr) (hl : f.last = true)
    (hacc : s1.returned.flatten ++ s1.partialD ++ [f] ++ s1.incoming = arr) (harr : s1.arrived = arr)
    (hp : s1.parked = none) (hh : s1.held = none) (hlost : s1.lost = [])
    (hw : ∀ d ∈ s1.returned, WholeD d) (hpo : ∀ g ∈ s1.partialD, g.last = false) :
    RInv (rfinish true f s1) := by
  have hcomplete : RInv { s1 with returned := s1.returned ++ [s1.partialD ++ [f]], partialD := [] } := by
    refine ⟨?_, hh, hlost, ?_, ?_⟩
    · simp only [RSt.account, hp, hh, harr, ← hacc]; simp
    · intro d hd
      rcases List.mem_append.mp hd with hd | hd
      · exact hw d hd
      · simp at hd; subst hd; exact ⟨s1.partialD, f, rfl, hl, hpo⟩
    · intro g hg; simp at hg
  unfold rfinish
  by_cases ha : s1.auto = true
  · simp only [ha, if_true]
    by_cases hr : s1.outLen + need s1.outCap ≤ s1.outCap
    · simp only [hr, if_true]
      refine ⟨?_, hh, hlost, hcomplete.whole, hcomplete.partialOpen⟩
      have := hcomplete.account
      simpa [RSt.account] using this
    · simp only [hr, if_false]
      refine ⟨?_, hh, hlost, hw, hpo⟩
      simp only [RSt.account, hh, harr, ← hacc]; simp
  · have ha' : s1.auto = false := by simpa using ha
    simp only [ha', Bool.false_eq_true, if_false]
    refine ⟨?_, hh, hlost, hcomplete.whole, hcomplete.partialOpen⟩
    have := hcomplete.account
    simpa [RSt.account] using this

theorem rpoll_inv : ∀ (fuel : Nat) (s : RSt), RInv s → RInv (rpoll true fuel s) := by
  intro fuel
  induction fuel with
  | zero => intro s h; exact h
  | succ fuel ih =>
    intro s h
    unfold rpoll
    cases ht : rtake s with
    | none => exact h
    | some fs =>
      obtain ⟨f, s1⟩ := fs
      obtain ⟨hacc, hp, hh, hr, hpd, harr, hlost⟩ := rtake_spec s h.held f s1 ht
      simp only
      by_cases hl : f.last = true
      · simp only [hl, if_true]
        apply rfinish_inv f s1 s.arrived hl
        · rw [← hacc]; exact h.account
        · exact harr
        · exact hp
        · exact hh
        · rw [hlost]; exact h.lost
        · rw [hr]; exact h.whole
        · rw [hpd]; exact h.partialOpen
      · simp only [hl, Bool.false_eq_true, if_false]
        apply ih
        refine ⟨?_, hh, ?_, ?_, ?_⟩
        · simp only [RSt.account, hp, hh, harr]
          rw [← h.account, hacc]; simp
        · show s1.lost = []; rw [hlost]; exact h.lost
        · show ∀ d ∈ s1.returned, WholeD d; rw [hr]; exact h.whole
        · intro g hg
          rcases List.mem_append.mp hg with hg | hg
          · rw [hpd] at hg; exact h.partialOpen g hg
          · simp at hg; subst hg; simpa using hl

theorem rinv_step (s : RSt) (e : REv) (h : RInv s) : RInv (rstep true s e) := by
  cases e with
  | arrive f =>
    refine ⟨?_, h.held, h.lost, h.whole, h.partialOpen⟩
    simp only [rstep, RSt.account]
    rw [← h.account]; simp [RSt.account]
  | poll => exact rpoll_inv _ s h
  | cancel =>
    refine ⟨?_, rfl, ?_, h.whole, h.partialOpen⟩
    · simp only [rstep, RSt.account]
      rw [← h.account]; simp [RSt.account, h.held]
    · simp [rstep, h.lost, h.held]
  | outDrain n => exact ⟨h.account, h.held, h.lost, h.whole, h.partialOpen⟩
  | outFill n => exact ⟨h.account, h.held, h.lost, h.whole, h.partialOpen⟩

theorem rinv_run (evs : List REv) : ∀ (s : RSt), RInv s → RInv (rrun true s evs) := by
  induction evs with
  | nil => intro s h; exact h
  | cons e es ih => intro s h; exact ih _ (rinv_step s e h)

/-- **cancelling a recv loses nothing and duplicates nothing.**  Whatever the arrivals, polls and
    drops, and however full the link-to-session queue is: the deliveries returned so far, the
    delivery being put together, the parked transfer and the queue are, one after the other,
    exactly the transfers that arrived; and every delivery returned is whole. -/
theorem recv_cancel_safe (auto : Bool) (cap : Nat) (evs : List REv) :
    let s := rrun recvParks (rinit auto cap) evs
    s.returned.flatten ++ s.partialD ++ s.parked.toList ++ s.incoming = s.arrived ∧
    s.lost = [] ∧ ∀ d ∈ s.returned, WholeD d := by
  intro s
  have h : RInv s := by
    show RInv (rrun recvParks (rinit auto cap) evs)
    rw [source_recv_parks]; exact rinv_run evs _ (rinv_init auto cap)
  refine ⟨?_, h.lost, h.whole⟩
  have := h.account
  simpa [RSt.account, h.held] using this

/-- a whole delivery at the front of a stream of whole messages is the first message -/
theorem wholeD_prefix (d rest : List Fr) (k t : Nat) (tail : List Fr) (ht : 0 < t) (hd : WholeD d)
    (h : d ++ rest = frames k t ++ tail) : d = frames k t ∧ rest = tail := by
  obtain ⟨body, f, rfl, hfl, hbody⟩ := hd
  -- the last transfer of `frames k t` is its only last one
  have hlastIdx : ∀ g ∈ frames k t, g.last = true ↔ g.i + 1 = t := by
    intro g hg
    simp only [frames, List.mem_map, List.mem_range] at hg
    obtain ⟨i, _, rfl⟩ := hg
    simp [Fr.last]
  have hlen : (body ++ [f]).length = t := by
    -- compare the position of the first last transfer on both sides
    by_cases hlt : (body ++ [f]).length ≤ t
    · -- `f` is element number `body.length` of `frames k t`
      have hfmem : (frames k t ++ tail)[body.length]? = some f := by
        rw [← h]; simp
      have hbl : body.length < t := by simp at hlt; omega
      have hf' : (frames k t)[body.length]? = some f := by
        rw [List.getElem?_append_left (by simp [frames_length]; exact hbl)] at hfmem; exact hfmem
      have hfeq : f = ⟨k, body.length, t⟩ := by
        simp only [frames] at hf'
        rw [List.getElem?_map, List.getElem?_range hbl] at hf'
        simp at hf'; exact hf'.symm
      have : f.i + 1 = t := by
        have := (hlastIdx f (List.mem_of_getElem? hf')).mp hfl; exact this
      rw [hfeq] at this; simp at this ⊢; omega
    · -- otherwise the last transfer of `frames k t` stands inside `body`
      exfalso
      have hgt : t < (body ++ [f]).length := by omega
      have hbt : t - 1 < body.length := by simp at hgt; omega
      have hg : (body ++ [f] ++ rest)[t - 1]? = some (body[t - 1]'hbt) := by
        rw [List.append_assoc, List.getElem?_append_left hbt]; simp
      have hg' : (frames k t ++ tail)[t - 1]? = some ⟨k, t - 1, t⟩ := by
        rw [List.getElem?_append_left (by simp [frames_length]; omega)]
        simp only [frames]
        rw [List.getElem?_map, List.getElem?_range (by omega)]; simp
      rw [h, hg'] at hg
      have hm : body[t - 1]'hbt ∈ body := List.getElem_mem hbt
      have := hbody _ hm
      simp only [Option.some.injEq] at hg
      rw [← hg] at this
      simp [Fr.last] at this; omega
  have h1 := List.append_inj h (by rw [hlen, frames_length])
  exact h1

/-- hence the deliveries returned are the messages sent, in order, each once -/
theorem returned_are_messages : ∀ (ds : List (List Fr)) (rest : List Fr) (msgs : List (Nat × Nat)),
    (∀ m ∈ msgs, 0 < m.2) → (∀ d ∈ ds, WholeD d) → ds.flatten ++ rest = wholeOf msgs →
    ds = (msgs.take ds.length).map (fun m => frames m.1 m.2) := by
  intro ds
  induction ds with
  | nil => intro _ _ _ _ _; simp
  | cons d ds ih =>
    intro rest msgs hpos hw h
    cases msgs with
    | nil =>
      exfalso
      obtain ⟨body, f, rfl, _, _⟩ := hw d (by simp)
      simp [wholeOf] at h
    | cons m ms =>
      have hm : wholeOf (m :: ms) = frames m.1 m.2 ++ wholeOf ms := by simp [wholeOf]
      rw [hm] at h
      simp only [List.flatten_cons, List.append_assoc] at h
      obtain ⟨h1, h2⟩ := wholeD_prefix d (ds.flatten ++ rest) m.1 m.2 (wholeOf ms) (hpos m (by simp)) (hw d (by simp)) h
      have := ih rest ms (fun x hx => hpos x (by simp [hx])) (fun x hx => hw x (by simp [hx])) h2
      simp only [List.length_cons, List.take_succ_cons, List.map_cons]
      rw [h1, ← this]

/-- **the deliveries returned by the recv calls that complete are exactly the messages sent, in
    order** — when what arrived is a stream of whole messages -/
theorem recv_returns_messages (auto : Bool) (cap : Nat) (evs : List REv) (msgs : List (Nat × Nat))
    (hpos : ∀ m ∈ msgs, 0 < m.2) (harr : (rrun recvParks (rinit auto cap) evs).arrived = wholeOf msgs) :
    let s := rrun recvParks (rinit auto cap) evs
    s.returned = (msgs.take s.returned.length).map (fun m => frames m.1 m.2) := by
  intro s
  obtain ⟨hacc, _, hw⟩ := recv_cancel_safe auto cap evs
  have : s.returned.flatten ++ (s.partialD ++ s.parked.toList ++ s.incoming) = wholeOf msgs := by
    rw [← harr, ← hacc]; simp [s]
  exact returned_are_messages s.returned _ msgs hpos hw this

/-- nothing stays parked for good: with room in the queue the next poll returns the delivery -/
theorem parked_is_returned (s : RSt) (f : Fr) (hp : s.parked = some f) (hl : f.last = true) (ha : s.auto = true)
    (hroom : s.outLen + need s.outCap ≤ s.outCap) (fuel : Nat) :
    (rpoll true (fuel + 1) s).returned = s.returned ++ [s.partialD ++ [f]] ∧ (rpoll true (fuel + 1) s).parked = none := by
  simp [rpoll, rtake, hp, hl, rfinish, ha, hroom]

/-- the room asked for is never more than the queue can give -/
theorem need_le_cap (cap : Nat) : need cap ≤ cap := Nat.min_le_left _ _

/-- what the code did before: the transfer lived in the future while room was awaited, and a drop lost it -/
theorem unparked_recv_loses :
    let s := rrun false (rinit true 1) [.outFill 1, .arrive ⟨0, 0, 1⟩, .poll, .cancel, .outDrain 1, .arrive ⟨1, 0, 1⟩, .poll]
    s.returned = [[⟨1, 0, 1⟩]] ∧ s.lost = [⟨0, 0, 1⟩] := by decide

example :
    let s := rrun recvParks (rinit true 1) [.outFill 1, .arrive ⟨0, 0, 1⟩, .poll, .cancel, .outDrain 1, .arrive ⟨1, 0, 1⟩, .poll, .outDrain 1, .poll]
    s.returned = [[⟨0, 0, 1⟩], [⟨1, 0, 1⟩]] ∧ s.lost = [] := by decide +kernel

end Amqp.Cancel
