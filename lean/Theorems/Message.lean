/-
  Messages (C03, C01): a message written section by section is read back as the same message —
  for every combination of the optional sections and every body kind.
-/
import Theorems.Lemmas.Message
import Theorems.Typed

namespace Amqp.Message
open Amqp.Codec Amqp.Typed Amqp.Gen.Codes

/-- the two list-encoded sections carry the codes the message visitor tells them apart by -/
structure MsgEnv (env : List Schema) : Prop where
  header : ∀ s, lookup env "amqp:header:list" = some s → s.code = SKind.header.code
  properties : ∀ s, lookup env "amqp:properties:list" = some s → s.code = SKind.properties.code

def MapOk (v : Value) : Prop := (∃ kvs, v = .map kvs) ∧ WF v

def BodyOk : Body → Prop
  | .value v => WF v
  | .data bs => bs ≠ [] ∧ ∀ b ∈ bs, b.length < 4294967296
  | .sequence ls => ls ≠ [] ∧ ∀ l ∈ ls, WF (.list l)
  | .empty => False

/-- a message of the AMQP type system: typed header and properties, annotation sections that are
    maps, a body of one of the three kinds (`Body::Empty` is not one: see `empty_body_is_written_as_null`) -/
structure MsgOk (env : List Schema) (m : Msg) : Prop where
  header : ∀ h, m.header = some h → TVOk env headerTy h
  properties : ∀ p, m.properties = some p → TVOk env propertiesTy p
  deliveryAnn : ∀ v, m.deliveryAnn = some v → MapOk v
  msgAnn : ∀ v, m.msgAnn = some v → MapOk v
  appProps : ∀ v, m.appProps = some v → MapOk v
  footer : ∀ v, m.footer = some v → MapOk v
  body : BodyOk m.body
  depth : ∀ s ∈ sections env m, nest s ≤ MAX_NESTING_DEPTH

theorem assign_typed (env : List Schema) (hE : EnvOk env) (acc : Acc) (t : TV) (name : String) (k : SKind)
    (hcode : ∀ s, lookup env name = some s → s.code = k.code) (h : TVOk env (.comp [name]) t) :
    kindOf (match toTree env t with | .described d _ => d | v => v) = some k ∧
    fromTree env (.comp [name]) (toTree env t) = some t ∧ (∃ d p, toTree env t = .described d p) := by
  have hf : fromTree env (.comp [name]) (toTree env t) = some t := by
    rw [toTree_eq]; exact fromTree_toTreeV env hE t _ _ h
  cases t with
  | absent => simp [TVOk] at h
  | leaf v => obtain ⟨p, hp, _⟩ := h; cases hp
  | comp n fs =>
    obtain ⟨names, hn, hc, hl⟩ := h
    cases hn
    have hname : n = name := by simpa using hc
    subst hname
    cases hlk : lookup env n with
    | none => simp [hlk] at hl
    | some s =>
      refine ⟨?_, hf, ?_⟩
      · simp only [toTree, hlk]
        rw [hcode s hlk]
        exact kindOf_code k
      · simp only [toTree, hlk]
        exact ⟨_, _, rfl⟩

theorem assign_header (env : List Schema) (hE : EnvOk env) (hM : MsgEnv env) (acc : Acc) (t : TV)
    (h : TVOk env headerTy t) : assign env acc (toTree env t) = some { acc with header := some t } := by
  obtain ⟨hk, hf, d, p, hd⟩ := assign_typed env hE acc t "amqp:header:list" .header hM.header h
  rw [hd] at hk hf ⊢
  simp only [] at hk
  simp only [assign, hk]
  rw [show headerTy = FTy.comp ["amqp:header:list"] from rfl, hf]
  rfl

theorem assign_properties (env : List Schema) (hE : EnvOk env) (hM : MsgEnv env) (acc : Acc) (t : TV)
    (h : TVOk env propertiesTy t) : assign env acc (toTree env t) = some { acc with properties := some t } := by
  obtain ⟨hk, hf, d, p, hd⟩ := assign_typed env hE acc t "amqp:properties:list" .properties hM.properties h
  rw [hd] at hk hf ⊢
  simp only [] at hk
  simp only [assign, hk]
  rw [show propertiesTy = FTy.comp ["amqp:properties:list"] from rfl, hf]
  rfl

/-- what the visitor has collected after the sections of a well-formed message -/
theorem classify_sections (env : List Schema) (hE : EnvOk env) (hM : MsgEnv env) (m : Msg) (h : MsgOk env m) :
    classify env (sections env m) {} =
      some { header := m.header, deliveryAnn := m.deliveryAnn, msgAnn := m.msgAnn, properties := m.properties,
             appProps := m.appProps, body := some m.body, footer := m.footer } := by
  obtain ⟨hh, hp, hda, hma, hap, hfo, hb, _⟩ := h
  cases m with
  | mk header da ma props ap body footer =>
    simp only [sections]
    simp only at hh hp hda hma hap hfo hb
    simp only [List.append_assoc]
    have s1 : classify env ((optL header).map (toTree env)) {} = some { header := header } := by
      cases header with
      | none => simp [optL, classify]
      | some t => simp [optL, classify, assign_header env hE hM {} t (hh t rfl)]
    have mapStep : ∀ (o : Option Value) (k : SKind) (acc : Acc), (∀ v, o = some v → MapOk v) →
        ∀ (upd : Acc → Option Value → Acc),
        (∀ kvs, assign env acc (basic k (.map kvs)) = some (upd acc (some (.map kvs)))) → upd acc none = acc →
        classify env ((optL o).map (basic k)) acc = some (upd acc o) := by
      intro o k acc hok upd hupd hnone
      cases o with
      | none => simp [optL, classify, hnone]
      | some v =>
        obtain ⟨⟨kvs, rfl⟩, _⟩ := hok v rfl
        simp [optL, classify, hupd kvs]
    have s2 := mapStep da .deliveryAnn { header := header } hda (fun a o => { a with deliveryAnn := o })
      (fun kvs => by rw [assign_map]) rfl
    have s3 := mapStep ma .msgAnn { header := header, deliveryAnn := da } hma (fun a o => { a with msgAnn := o })
      (fun kvs => by rw [assign_map]) rfl
    have s4 : classify env ((optL props).map (toTree env)) { header := header, deliveryAnn := da, msgAnn := ma } =
        some { header := header, deliveryAnn := da, msgAnn := ma, properties := props } := by
      cases props with
      | none => simp [optL, classify]
      | some t => simp [optL, classify, assign_properties env hE hM _ t (hp t rfl)]
    have s5 := mapStep ap .appProps { header := header, deliveryAnn := da, msgAnn := ma, properties := props } hap
      (fun a o => { a with appProps := o }) (fun kvs => by rw [assign_map]) rfl
    have s6 : classify env (bodySections body)
        { header := header, deliveryAnn := da, msgAnn := ma, properties := props, appProps := ap } =
        some { header := header, deliveryAnn := da, msgAnn := ma, properties := props, appProps := ap, body := some body } := by
      cases body with
      | value v => simp [bodySections, classify, assign_value]
      | empty => exact absurd hb (by simp [BodyOk])
      | data bs =>
        cases bs with
        | nil => exact absurd rfl hb.1
        | cons b rest =>
          simp only [bodySections, List.map_cons, classify, assign_data, addData]
          rw [classify_data env rest _ [b] rfl]
          simp
      | sequence ls =>
        cases ls with
        | nil => exact absurd rfl hb.1
        | cons b rest =>
          simp only [bodySections, List.map_cons, classify, assign_sequence, addSequence]
          rw [classify_sequence env rest _ [b] rfl]
          simp
    have s7 := mapStep footer .footer
      { header := header, deliveryAnn := da, msgAnn := ma, properties := props, appProps := ap, body := some body } hfo
      (fun a o => { a with footer := o }) (fun kvs => by rw [assign_map]) rfl
    rw [classify_append, s1]; simp only [Option.bind]
    rw [classify_append, s2]; simp only [Option.bind]
    rw [classify_append, s3]; simp only [Option.bind]
    rw [classify_append, s4]; simp only [Option.bind]
    rw [classify_append, s5]; simp only [Option.bind]
    rw [classify_append, s6]; simp only [Option.bind]
    rw [s7]

theorem WF_basic (k : SKind) (v : Value) (h : WF v) : WF (basic k v) := by
  refine ⟨Or.inr ⟨_, rfl⟩, ⟨be64_length _, by simp⟩, h⟩

theorem sections_WF (env : List Schema) (hE : EnvOk env) (m : Msg) (h : MsgOk env m) :
    ∀ s ∈ sections env m, WF s := by
  obtain ⟨hh, hp, hda, hma, hap, hfo, hb, _⟩ := h
  intro s hs
  simp only [sections, List.mem_append, List.mem_map] at hs
  rcases hs with (((((hs | hs) | hs) | hs) | hs) | hs) | hs
  · obtain ⟨t, ht, rfl⟩ := hs
    cases hm : m.header with
    | none => simp [hm, optL] at ht
    | some x =>
      have ht' : t = x := by simpa [hm, optL] using ht
      rw [ht']
      rw [toTree_eq]; exact WF_toTreeV env hE x _ _ (hh x hm)
  · obtain ⟨v, hv, rfl⟩ := hs
    cases hm : m.deliveryAnn with
    | none => simp [hm, optL] at hv
    | some x =>
      have hv' : v = x := by simpa [hm, optL] using hv
      rw [hv']
      exact WF_basic _ _ (hda x hm).2
  · obtain ⟨v, hv, rfl⟩ := hs
    cases hm : m.msgAnn with
    | none => simp [hm, optL] at hv
    | some x =>
      have hv' : v = x := by simpa [hm, optL] using hv
      rw [hv']
      exact WF_basic _ _ (hma x hm).2
  · obtain ⟨t, ht, rfl⟩ := hs
    cases hm : m.properties with
    | none => simp [hm, optL] at ht
    | some x =>
      have ht' : t = x := by simpa [hm, optL] using ht
      rw [ht']
      rw [toTree_eq]; exact WF_toTreeV env hE x _ _ (hp x hm)
  · obtain ⟨v, hv, rfl⟩ := hs
    cases hm : m.appProps with
    | none => simp [hm, optL] at hv
    | some x =>
      have hv' : v = x := by simpa [hm, optL] using hv
      rw [hv']
      exact WF_basic _ _ (hap x hm).2
  · cases hbd : m.body with
    | value v =>
      rw [hbd] at hs hb
      simp [bodySections] at hs; subst hs; exact WF_basic _ _ hb
    | empty => rw [hbd] at hb; exact absurd hb (by simp [BodyOk])
    | data bs =>
      rw [hbd] at hs hb
      simp only [bodySections, List.mem_map] at hs
      obtain ⟨b, hbm, rfl⟩ := hs
      exact WF_basic _ _ ⟨fun hk => absurd rfl hk, hb.2 b hbm⟩
    | sequence ls =>
      rw [hbd] at hs hb
      simp only [bodySections, List.mem_map] at hs
      obtain ⟨l, hlm, rfl⟩ := hs
      exact WF_basic _ _ (hb.2 l hlm)
  · obtain ⟨v, hv, rfl⟩ := hs
    cases hm : m.footer with
    | none => simp [hm, optL] at hv
    | some x =>
      have hv' : v = x := by simpa [hm, optL] using hv
      rw [hv']
      exact WF_basic _ _ (hfo x hm).2

theorem WFAll_of_forall : ∀ (vs : List Value), (∀ v ∈ vs, WF v) → WFAll vs
  | [], _ => by simp [WFAll]
  | v :: vs, h => by
    simp only [WFAll]
    exact ⟨h v (List.mem_cons_self), WFAll_of_forall vs (fun w hw => h w (List.mem_cons_of_mem _ hw))⟩

/-- **message_roundtrip (C03 / C01).** A message of the AMQP type system — any combination of
    header, delivery-annotations, message-annotations, properties, application-properties and footer,
    with a body of one amqp-value, one or more data sections or one or more amqp-sequence sections —
    written section by section, is read back as exactly that message: every section in its place, byte
    for byte (data), value for value, the sections of a batch in their order. -/
theorem message_roundtrip (env : List Schema) (hE : EnvOk env) (hM : MsgEnv env) (m : Msg) (h : MsgOk env m)
    (e : Bytes) (he : encodeMsg env m = some e) : decodeMsg env e = .ok m := by
  have hwf := sections_WF env hE m h
  have hread : readAll decode (e.length + 1) e = .ok (sections env m) := by
    apply readAll_encAll decode (sections env m) e (e.length + 1) _ he
    · have := encAll_len (sections env m) (WFAll_of_forall _ hwf) e he
      omega
    · intro v hv ev tail hev
      refine ⟨value_roundtrip v (hwf v hv) (h.depth v hv) ev tail hev, ?_⟩
      have h1 : encAll [v] = some ev := by simp [encAll_cons, hev, encAll]
      have hw1 : WFAll [v] := by simp only [WFAll]; exact ⟨hwf v hv, trivial⟩
      have := encAll_len [v] hw1 ev h1
      simpa using this
  unfold decodeMsg
  rw [hread]
  simp only [readMsg, classify_sections env hE hM m h, finish, Option.getD]

/-- **empty_body_is_written_as_null.** `Body::Empty` is not a body of the AMQP type system: it is
    written as an amqp-value section holding null, and that is what comes back. -/
theorem empty_body_is_written_as_null (env : List Schema) (hE : EnvOk env) (hM : MsgEnv env) (m : Msg)
    (h : MsgOk env { m with body := .value .null }) (e : Bytes) (he : encodeMsg env { m with body := .empty } = some e) :
    decodeMsg env e = .ok { m with body := .value .null } :=
  message_roundtrip env hE hM _ h e he

/-- generated obligation: in the source's declarations header and properties carry the codes the
    message visitor expects -/
theorem msg_env : MsgEnv env := by
  constructor
  · intro s hs
    have : (lookup env "amqp:header:list").map (·.code) = some SKind.header.code := by decide +kernel
    rw [hs] at this; simpa using this
  · intro s hs
    have : (lookup env "amqp:properties:list").map (·.code) = some SKind.properties.code := by decide +kernel
    rw [hs] at this; simpa using this

theorem message_roundtrip_source (m : Msg) (h : MsgOk env m) (e : Bytes) (he : encodeMsg env m = some e) :
    decodeMsg env e = .ok m :=
  message_roundtrip env env_ok msg_env m h e he

end Amqp.Message
