/-
  C01 / C10 / C20 — reading a delivery from the list of its frames' payloads is reading it from their
  concatenation: for every chunking and every sequence of destination sizes.
-/
import Amqp.Chunks
import Amqp.IoRead

namespace Amqp.Chunks
open Amqp.Gen.ChunksK

theorem source_chunk_reader_shape : sourceShape = true := by decide

/-- the loop, entered with `got ≤ n` bytes already copied, copies the next `n - got` bytes of the
    concatenation (or all there are), leaves chunks whose concatenation is the rest, keeps the number of
    chunks, and its count is `got` plus what it copied -/
theorem readLoop_spec (n : Nat) : ∀ (cs : List Bytes) (got : Nat), got ≤ n →
    (readLoop n got cs).copied = cs.flatten.take (n - got) ∧
    (readLoop n got cs).chunks.flatten = cs.flatten.drop (n - got) ∧
    (readLoop n got cs).count = got + (readLoop n got cs).copied.length ∧
    (readLoop n got cs).chunks.length = cs.length := by
  intro cs
  induction cs with
  | nil => intro got _; simp [readLoop]
  | cons p rest ih =>
    intro got hg
    unfold readLoop
    by_cases h0 : byte_reader_read.cond_if_0 n got p.length = true
    · have hk : n - got ≤ p.length := by
        simpa [byte_reader_read.cond_if_0, psub64] using h0
      simp only [h0, if_true, byte_reader_read.arg_split_to_0, byte_reader_read.assign_nbytes_read_0, psub64,
        List.flatten_cons]
      refine ⟨(List.take_append_of_le_length hk).symm, (List.drop_append_of_le_length hk).symm, ?_, by simp⟩
      simp [List.length_take]; omega
    · have hk : p.length < n - got := by
        simp [byte_reader_read.cond_if_0, psub64] at h0; omega
      have h1 : byte_reader_read.cond_if_1 n p.length = true := by
        simp [byte_reader_read.cond_if_1]; omega
      have h0' : byte_reader_read.cond_if_0 n got p.length = false := by simpa using h0
      simp only [h0', h1, if_true, Bool.false_eq_true, if_false, byte_reader_read.assign_nbytes_read_1,
        byte_reader_read.let_remaining_0]
      obtain ⟨i1, i2, i3, i4⟩ := ih (got + p.length) (by omega)
      have e : n - (got + p.length) = n - got - p.length := by omega
      have ht : List.take (n - got) p = p := List.take_of_length_le (by omega)
      have hd : List.drop (n - got) p = [] := List.drop_of_length_le (by omega)
      refine ⟨?_, ?_, ?_, by simp [i4]⟩
      · simp only [List.flatten_cons, List.take_append, i1, e, ht]
      · simp only [List.flatten_cons, List.nil_append, List.drop_append, i2, e, hd]
      · simp only [i3, List.length_append]; omega

/-- **read_refines_concat (C01, C10, C20).** One `read` into a destination of `n` bytes: what is copied
    is the first `n` bytes of the concatenation of the chunks (all of it when it is shorter), what the
    chunks hold afterwards is, concatenated, the rest, and the count returned is the number of bytes
    copied — wherever the chunk boundaries are, with empty chunks anywhere. -/
theorem read_refines_concat (cs : List Bytes) (n : Nat) :
    (read cs n).copied = cs.flatten.take n ∧
    (read cs n).chunks.flatten = cs.flatten.drop n ∧
    (read cs n).count = (read cs n).copied.length := by
  obtain ⟨a, b, c, _⟩ := readLoop_spec n cs 0 (Nat.zero_le n)
  unfold read
  simp only [byte_reader_read.let_nbytes_read_0]
  refine ⟨by simpa using a, by simpa using b, by simpa using c⟩

theorem read_count (cs : List Bytes) (n : Nat) : (read cs n).count = min n cs.flatten.length := by
  obtain ⟨a, _, c⟩ := read_refines_concat cs n
  rw [c, a, List.length_take]

theorem readExact_spec : ∀ (fuel : Nat) (cs : List Bytes) (n : Nat), n < fuel →
    (cs.flatten.length < n → readExact fuel cs n = none) ∧
    (n ≤ cs.flatten.length → ∃ cs', readExact fuel cs n = some (cs.flatten.take n, cs') ∧
        cs'.flatten = cs.flatten.drop n) := by
  intro fuel
  induction fuel with
  | zero => intro cs n h; omega
  | succ fuel ih =>
    intro cs n h
    cases n with
    | zero =>
      refine ⟨fun h' => by omega, fun _ => ⟨cs, ?_, by simp⟩⟩
      cases fuel <;> simp [readExact]
    | succ n =>
      obtain ⟨a, b, c⟩ := read_refines_concat cs (n + 1)
      have hc := read_count cs (n + 1)
      unfold readExact
      by_cases hz : (read cs (n + 1)).count = 0
      · have hlen : cs.flatten.length = 0 := by rw [hc] at hz; omega
        simp only [hz, if_true]
        exact ⟨fun _ => trivial, fun h' => by omega⟩
      · simp only [hz, if_false]
        have hpos : 0 < cs.flatten.length := by
          rcases Nat.eq_zero_or_pos cs.flatten.length with h0 | h0
          · rw [hc, h0] at hz; simp at hz
          · exact h0
        by_cases hfull : n + 1 ≤ cs.flatten.length
        · have hcnt : (read cs (n + 1)).count = n + 1 := by rw [hc]; omega
          obtain ⟨_, i2⟩ := ih (read cs (n + 1)).chunks 0 (by omega)
          obtain ⟨cs', e1, e2⟩ := i2 (Nat.zero_le _)
          refine ⟨fun h' => by omega, fun _ => ⟨cs', ?_, ?_⟩⟩
          · rw [hcnt, Nat.sub_self, e1]
            simp only [List.take_zero, List.append_nil]
            rw [a, List.take_take]; simp
          · rw [e2, b]; simp
        · have hcnt : (read cs (n + 1)).count = cs.flatten.length := by rw [hc]; omega
          have hrest : (read cs (n + 1)).chunks.flatten.length < n + 1 - (read cs (n + 1)).count := by
            rw [b, hcnt, List.length_drop]; omega
          obtain ⟨i1, _⟩ := ih (read cs (n + 1)).chunks (n + 1 - (read cs (n + 1)).count) (by omega)
          refine ⟨fun _ => ?_, fun h' => by omega⟩
          rw [i1 hrest]

/-- **chunk_stream_is_the_concatenation (C01, C10, C20).** `read_exact` on the reader over the chunks is
    `read_exact` on a stream that holds their concatenation — the stream the io reader model
    (`Amqp.IoRead`) stands on: it fails exactly when fewer than `n` bytes are left in all the chunks
    together, and otherwise hands out the next `n` bytes of the concatenation and leaves the rest.  With
    `io_refines_slice`, decoding a delivery from the payloads of its frames is decoding it from one
    buffer holding the payloads one after the other, for every way the delivery was cut into frames. -/
theorem chunk_stream_is_the_concatenation (cs : List Bytes) (n : Nat) :
    (readExact (n + 1) cs n).map (fun r => (r.1, r.2.flatten)) = Amqp.IoRead.srcExact cs.flatten n := by
  obtain ⟨i1, i2⟩ := readExact_spec (n + 1) cs n (Nat.lt_succ_self n)
  unfold Amqp.IoRead.srcExact
  by_cases h : cs.flatten.length < n
  · rw [i1 h, if_pos h]; rfl
  · obtain ⟨cs', e1, e2⟩ := i2 (by omega)
    rw [e1, if_neg h]
    simp only [Option.map_some, e2]

/-! ### every sequence of `read_exact` calls

The io reader touches its stream through `read_exact` only (`fill_buffer`, `peek`, `next`, `read_exact` —
the order facts of `Amqp.Gen.IoReadK`), so two streams that answer every sequence of `read_exact` calls
alike are the same stream to it, and to the decoder on top of it. -/

/-- a sequence of `read_exact` calls on the reader over the chunks (it stops at the first failure) -/
def runChunks : List Bytes → List Nat → List (Option Bytes)
  | _, [] => []
  | cs, n :: ns =>
    match readExact (n + 1) cs n with
    | none => [none]
    | some (bs, cs') => some bs :: runChunks cs' ns

/-- the same calls on a stream holding the bytes in one piece -/
def runFlat : Bytes → List Nat → List (Option Bytes)
  | _, [] => []
  | src, n :: ns =>
    match Amqp.IoRead.srcExact src n with
    | none => [none]
    | some (bs, rest) => some bs :: runFlat rest ns

/-- **chunks_are_one_stream (C01, C10, C20).** For every list of chunks and every sequence of `read_exact`
    calls of any sizes, the reader over the chunks answers exactly as a stream holding the concatenation of
    the chunks: the same bytes, a failure at the same call.  Together with `io_refines_slice` (the io
    reader over a stream is the slice reader over the stream's bytes) the delivery put together from the
    frames' payloads is decoded as the payloads' concatenation is, wherever the frames were cut. -/
theorem chunks_are_one_stream : ∀ (ns : List Nat) (cs : List Bytes),
    runChunks cs ns = runFlat cs.flatten ns := by
  intro ns
  induction ns with
  | nil => intro cs; rfl
  | cons n ns ih =>
    intro cs
    obtain ⟨i1, i2⟩ := readExact_spec (n + 1) cs n (Nat.lt_succ_self n)
    unfold runChunks runFlat Amqp.IoRead.srcExact
    by_cases h : cs.flatten.length < n
    · rw [i1 h, if_pos h]
    · obtain ⟨cs', e1, e2⟩ := i2 (by omega)
      rw [e1, if_neg h]
      simp only [ih cs', e2]

/-! ### the byte iterator over the chunks -/

theorem iterNext_spec : ∀ (cs : List Bytes),
    (cs.flatten = [] → iterNext cs = none) ∧
    (∀ b bs, cs.flatten = b :: bs → ∃ cs', iterNext cs = some (b, cs') ∧ cs'.flatten = bs)
  | [] => by simp [iterNext]
  | [] :: rest => by
    obtain ⟨i1, i2⟩ := iterNext_spec rest
    refine ⟨fun h => ?_, fun b bs h => ?_⟩
    · simp [iterNext, i1 (by simpa using h)]
    · obtain ⟨cs', e1, e2⟩ := i2 b bs (by simpa using h)
      exact ⟨[] :: cs', by simp [iterNext, e1], by simpa using e2⟩
  | (c :: p) :: rest => by
    refine ⟨fun h => by simp at h, fun b bs h => ?_⟩
    simp only [List.flatten_cons, List.cons_append, List.cons.injEq] at h
    exact ⟨p :: rest, by simp [iterNext, h.1], by simpa using h.2⟩

/-- **byte_iterator_is_the_concatenation.** The byte iterator over the chunks yields the bytes of their
    concatenation, in order, and its `len` is the length of the concatenation. -/
theorem byte_iterator_is_the_concatenation : ∀ (fuel : Nat) (cs : List Bytes), cs.flatten.length < fuel →
    iterAll fuel cs = cs.flatten := by
  intro fuel
  induction fuel with
  | zero => intro cs h; omega
  | succ fuel ih =>
    intro cs h
    obtain ⟨i1, i2⟩ := iterNext_spec cs
    unfold iterAll
    cases hf : cs.flatten with
    | nil => simp [i1 hf]
    | cons b bs =>
      obtain ⟨cs', e1, e2⟩ := i2 b bs hf
      simp only [e1]
      rw [ih cs' (by rw [e2]; rw [hf] at h; simp at h; omega), e2]

theorem iterLen_eq (cs : List Bytes) : iterLen cs = cs.flatten.length := by
  simp [iterLen, List.length_flatten]

/-- non-vacuity: three chunks, one of them empty, read 1, 1, 3 bytes at a time and then too much -/
example : (read [[1, 2, 3], [], [4, 5, 6, 7, 8], [9]] 4).copied = [1, 2, 3, 4] := by decide
example : (read [[1, 2, 3], [], [4, 5, 6, 7, 8], [9]] 4).chunks = [[], [], [5, 6, 7, 8], [9]] := by decide
example : readExact 11 [[1, 2, 3], [4]] 10 = none := by decide
example : iterAll 10 [[1], [], [2, 3]] = [1, 2, 3] := by decide
example : runChunks [[1, 2, 3], [], [4, 5, 6, 7, 8], [9]] [1, 1, 3, 10, 1] = [some [1], some [2], some [3, 4, 5], none] := by decide

end Amqp.Chunks
