/-
  `LazyValue` (C20, C04): the byte scanner takes exactly the bytes of the first value and leaves what
  follows untouched; whatever the input, what it returns is a prefix of the input.
-/
import Theorems.Lemmas.Lazy
import Theorems.C03
import Theorems.Lemmas.Typed

namespace Amqp.Lazy
open Amqp.Codec Amqp.Gen.Codes

/-- what `LazyValue` takes: any value that is not described, or a described value whose descriptor and
    value are not themselves described (`read_described_bytes` refuses those) -/
def lazyOk : Value → Bool
  | .described d x => notDescribed d && notDescribed x
  | _ => true

theorem skim1_head (bs a r : Bytes) (h : skim1 bs = .ok (a, r)) : ∃ c t, bs = c :: t ∧ c.toNat ≠ cDescribedType := by
  cases bs with
  | nil => simp [skim1] at h
  | cons c t =>
    refine ⟨c, t, rfl, fun hc => ?_⟩
    have hcat : categoryOf c.toNat = none := by rw [hc]; decide
    simp only [skim1, hcat] at h
    split at h <;> simp at h

/-- **lazy_takes_exactly_the_value (C20).** From the encoding of a value followed by anything, the
    scanner behind `LazyValue` (`from_slice`, `from_reader`, `LazyValue::from_reader`) cuts off exactly
    the encoding and leaves exactly what followed. -/
theorem lazy_takes_exactly_the_value (v : Value) (hw : WF v) (hl : lazyOk v = true) (e tail : Bytes)
    (he : encode v = some e) : skim (e ++ tail) = .ok (e, tail) := by
  unfold encode at he
  cases v with
  | described d x =>
    simp only [lazyOk, Bool.and_eq_true] at hl
    rw [Amqp.Typed.enc_described] at he
    cases ha : enc .none d with
    | none => simp [ha] at he
    | some a =>
      cases hb : enc .none x with
      | none => simp [ha, hb] at he
      | some b =>
        simp only [ha, hb, Option.some.injEq] at he
        subst he
        have h1 := skim1_enc d hw.2.1 hl.1 a (b ++ tail) ha
        have h2 := skim1_enc x hw.2.2 hl.2 b tail hb
        have h0 : (b8 cDescribedType).toNat = cDescribedType := by decide
        simp only [skim, List.cons_append, List.append_assoc, h0, if_true, h1, h2]
  | null | bool _ | fixed _ _ | var _ _ | list _ | map _ | array _ =>
    have h1 := skim1_enc _ hw rfl e tail he
    obtain ⟨c, t, hct, hne⟩ := skim1_head _ _ _ h1
    rw [hct] at h1 ⊢
    simp only [skim, hne, if_false, h1]

theorem take?_split (n : Nat) (bs a r : Bytes) (h : take? n bs = .ok (a, r)) : bs = a ++ r := by
  unfold take? at h
  split at h
  · cases h
  · cases h; exact (List.take_append_drop n bs).symm

theorem skim1_prefix (bs a r : Bytes) (h : skim1 bs = .ok (a, r)) : bs = a ++ r := by
  cases bs with
  | nil => simp [skim1] at h
  | cons c t =>
    simp only [skim1] at h
    split at h
    · cases h
    · split at h
      · cases h
      · exact take?_split _ _ _ _ h
      · split at h
        · cases h
        · exact take?_split _ _ _ _ h

/-- **lazy_is_a_prefix (C04).** For every byte string: whatever the scanner returns is a prefix of the
    input followed by the rest it reports — it reads nothing else, and (the model has no recursion
    beyond descriptor and value) its work is bounded by two size fields. -/
theorem lazy_is_a_prefix (bs a r : Bytes) (h : skim bs = .ok (a, r)) : bs = a ++ r := by
  cases bs with
  | nil => simp [skim] at h
  | cons c t =>
    simp only [skim] at h
    split at h
    · cases h1 : skim1 t with
      | error e => simp [h1] at h
      | ok p1 =>
        obtain ⟨d, r1⟩ := p1
        simp only [h1] at h
        cases h2 : skim1 r1 with
        | error e => simp [h2] at h
        | ok p2 =>
          obtain ⟨v, r2⟩ := p2
          simp only [h2] at h
          cases h
          have e1 := skim1_prefix _ _ _ h1
          have e2 := skim1_prefix _ _ _ h2
          rw [e1, e2]
          simp [List.append_assoc]
    · exact skim1_prefix _ _ _ h

/-- and the bytes it took decode to the value -/
theorem lazy_then_decode (v : Value) (hw : WF v) (hn : nest v ≤ MAX_NESTING_DEPTH) (hl : lazyOk v = true)
    (e tail : Bytes) (he : encode v = some e) :
    ∃ a, skim (e ++ tail) = .ok (a, tail) ∧ decode a = .ok (v, []) :=
  ⟨e, lazy_takes_exactly_the_value v hw hl e tail he, decode_encode v hw hn e he⟩

example : lazyOk sample = true := by decide

end Amqp.Lazy
