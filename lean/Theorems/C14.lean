/-
  C14 — failures propagate: no call hangs and every handle learns why it stopped.

  The part a model can carry: (1) the error a handle reports names the level that stopped and
  carries the peer's condition; (2) whatever the history of sends and settlements, once the
  session is dropped (or the peer has closed the link) nobody is left waiting for an outcome,
  and every waiter is answered exactly once.  That calls actually return in bounded time, that
  engine tasks terminate and that nothing panics is measured by the failure-injection runs.
-/
import Amqp.FailProp
import Theorems.PendingDetach
import Theorems.C12

namespace Amqp.FailProp

/-- **the error names the level that stopped** -/
theorem level_named (c : Cause) : (reported c).scope = c.scope := by
  cases c with
  | transportDrop => rfl
  | peerClose e => cases e <;> rfl
  | peerEnd e => cases e <;> rfl
  | peerDetach cl e => cases cl <;> cases e <;> rfl

/-- **and carries the peer's condition whenever the peer supplied one** -/
theorem condition_carried (c : Cause) : (reported c).carriesCondition = c.withError := by
  cases c with
  | transportDrop => rfl
  | peerClose e => cases e <;> rfl
  | peerEnd e => cases e <;> rfl
  | peerDetach cl e => cases cl <;> cases e <;> rfl

def waiting (m : List Entry) : List Nat := (m.filter (·.waiting)).map (·.tag)

theorem abandonAll_none_waiting (m : List Entry) : waiting (abandonAll m).1 = [] := by
  simp [abandonAll, waiting, List.filter_map, Function.comp_def]

theorem abandonAll_wakes_all (m : List Entry) : (abandonAll m).2 = (waiting m).map Wake.failed := by
  simp [abandonAll, waiting, List.map_map, Function.comp_def]

/-- **nobody is left waiting.**  After any history of sends and settlements, when the session
    endpoint is dropped every send that still awaited its outcome is woken (with an error), and
    nothing waits any more.  The same when the sender processes the peer's closing detach. -/
theorem nobody_left_waiting (evs : List Ev) (m : List Entry) (last : Ev)
    (hl : last = .sessionDropped ∨ last = .peerClosedLink) :
    waiting (run m (evs ++ [last])).1 = [] := by
  induction evs generalizing m with
  | nil =>
    rcases hl with rfl | rfl <;> simp [run, step, abandonAll_none_waiting]
  | cons e es ih =>
    simp only [List.cons_append, run]
    exact ih _

/-- a waiter is never answered twice: what `step` wakes no longer waits afterwards -/
theorem woken_stop_waiting (m : List Entry) (e : Ev) (t : Nat)
    (h : Wake.failed t ∈ (step m e).2 ∨ Wake.outcome t ∈ (step m e).2) :
    t ∉ waiting (step m e).1 := by
  cases e with
  | send t' => simp [step] at h
  | settle t' =>
    simp only [step, List.mem_map, List.mem_filter, Bool.and_eq_true, beq_iff_eq] at h
    rcases h with ⟨x, _, hx⟩ | ⟨x, ⟨_, hx1, _⟩, hx2⟩
    · cases hx
    · simp only [Wake.outcome.injEq] at hx2
      subst hx2
      simp only [step, waiting, List.mem_map, List.mem_filter, not_exists, not_and]
      intro y hy
      intro hyt
      have := hy.1.2
      simp [hyt, hx1] at this
  | sessionDropped =>
    rw [show (step m Ev.sessionDropped) = abandonAll m from rfl, abandonAll_none_waiting]; simp
  | peerClosedLink =>
    rw [show (step m Ev.peerClosedLink) = abandonAll m from rfl, abandonAll_none_waiting]; simp

-- non-vacuity
example : (run [] [.send 1, .send 2, .settle 1, .send 3, .sessionDropped]).2 =
    [.outcome 1, .failed 2, .failed 3] := by decide

end Amqp.FailProp
