/-
  C03 — Wire codec round-trip: decode(encode(x)) = x for every AMQP value.

  `Amqp.Codec` mirrors `serde_amqp`'s encoder and `Value` decoder; the format
  codes, offsets and thresholds it uses are regenerated from the source.  The
  theorems quantify over *all* values satisfying the explicit, decidable
  well-formedness predicate `WF` (what the encoder/decoder support), of any
  size and nesting up to the decoder's own depth limit, followed by any bytes.
-/
import Theorems.Lemmas.Codec

namespace Amqp.Codec
open Amqp.Gen.Codes

/-- **value_roundtrip.** For every well-formed value `v` (every primitive of
    every width class, lists / maps / arrays / described values nested up to the
    decoder's depth limit): the bytes `to_vec` produces, followed by *anything*,
    decode to exactly `v`, leaving exactly what followed. -/
theorem value_roundtrip (v : Value) (hw : WF v) (hn : nest v ≤ MAX_NESTING_DEPTH) (e tail : Bytes)
    (he : encode v = some e) : decode (e ++ tail) = .ok (v, tail) := by
  have hc := cost_le .none v hw e he
  have hf := fuel_enough v e tail hc
  have := rt v hw e he tail (decodeFuel (e ++ tail).length) MAX_NESTING_DEPTH MAX_ARRAY_COUNT hf hn
  unfold decode
  rw [this]
  rfl

/-- In particular `from_slice(to_vec(v)) = v`. -/
theorem decode_encode (v : Value) (hw : WF v) (hn : nest v ≤ MAX_NESTING_DEPTH) (e : Bytes)
    (he : encode v = some e) : decode e = .ok (v, []) := by
  have := value_roundtrip v hw hn e [] he
  simpa using this

/-- **enc_total_on_small.** Encoding fails only through a length limit: a scalar
    or a string / binary / symbol shorter than 2^32 - 4 bytes always encodes. -/
theorem enc_scalar_total (k : VarKind) (bs : Bytes) (h : bs.length ≤ U32_MAX_MINUS_4) :
    ∃ e, encode (.var k bs) = some e := by
  simp only [encode, enc, encVar]
  split
  · exact ⟨_, rfl⟩
  · simp [h]

/-- generated obligation: the byte accepted by `TryFrom<u8>` for each variant is
    that variant's discriminant (the decoder and the encoder use the same table) -/
theorem codes_consistent : ∀ p ∈ tryFromArms, p.1 = p.2 := by decide

theorem codes_complete : tryFromArms.map (·.2) = discriminants := by decide

/-- generated obligation: every `match` on a length in the encoder (ser.rs) and in the size calculator
    (size_ser.rs) uses the width classes of the model — one-byte form up to `U8_MAX_MINUS_1`, four-byte
    form from `U8_MAX` up to `U32_MAX_MINUS_4` (lists: from 1, the empty list has its own code) — and the
    two files use the same classes function by function.  A boundary moved in either file (a size
    computed for the other width class than the one written) breaks this. -/
theorem width_classes_agree :
    ranges_ser_all = [("ranges_ser_serialize_str_0", [(0, 254), (255, 4294967291)]),
      ("ranges_ser_serialize_str_1", [(0, 254), (255, 4294967291)]),
      ("ranges_ser_serialize_bytes_0", [(0, 254), (255, 4294967291)]),
      ("ranges_ser_write_array_0", [(0, 254), (255, 4294967291)]),
      ("ranges_ser_write_list_0", [(1, 254), (255, 4294967291)]),
      ("ranges_ser_write_map_0", [(0, 254), (255, 4294967291)])] ∧
    ranges_size_ser_all = [("ranges_size_ser_serialize_i32_0", [(-128, 127)]),
      ("ranges_size_ser_serialize_i64_0", [(-128, 127)]),
      ("ranges_size_ser_serialize_u32_0", [(1, 255)]),
      ("ranges_size_ser_serialize_u64_0", [(1, 255)]),
      ("ranges_size_ser_serialize_str_0", [(0, 254), (255, 4294967291)]),
      ("ranges_size_ser_serialize_str_1", [(0, 254), (255, 4294967291)]),
      ("ranges_size_ser_serialize_bytes_0", [(0, 254), (255, 4294967291)]),
      ("ranges_size_ser_list_size_0", [(1, 254), (255, 4294967291)]),
      ("ranges_size_ser_array_size_0", [(0, 254), (255, 4294967291)]),
      ("ranges_size_ser_map_size_0", [(0, 254), (255, 4294967291)])] ∧
    U8_MAX_MINUS_1 = 254 ∧ U8_MAX = 255 ∧ U32_MAX_MINUS_4 = 4294967291 := by decide

/-! ### non-vacuity: a nested value with every kind of node meets the hypotheses -/

def sample : Value :=
  .list [.null, .bool true, .fixed .uint [0, 0, 0, 5], .fixed .int [255, 255, 255, 128],
    .var .string [104, 105], .map [.var .symbol [97], .fixed .long [0, 0, 0, 0, 0, 0, 1, 0]],
    .array [.fixed .ushort [0, 1], .fixed .ushort [0, 2]],
    .described (.fixed .ulong [0, 0, 0, 0, 0, 0, 0, 112]) (.list [])]

example : WF sample := by
  simp [sample, WF, WFAll, SameSimple, elemCode, FixedKind.width, MAX_ARRAY_COUNT, validUtf8,
    flattenPairs, insertAll, mapInsert]

example : nest sample ≤ MAX_NESTING_DEPTH := by decide
example : (encode sample).isSome = true := by decide

end Amqp.Codec
