/-
  C03 — Wire codec round-trip: decode(encode(x)) = x for every AMQP value.

  `Amqp.Codec` mirrors `serde_amqp`'s encoder and `Value` decoder; the format
  codes, offsets and thresholds it uses are regenerated from the source.  The
  theorems quantify over *all* values satisfying the explicit, decidable
  well-formedness predicate `WF` (what the encoder/decoder support), of any
  size and nesting up to the decoder's own depth limit, followed by any bytes.
-/
import Theorems.Lemmas.Codec

namespace Amqp.Codec
open Amqp.Gen.Codes

/-- **value_roundtrip.** For every well-formed value `v` (every primitive of
    every width class, lists / maps / arrays / described values nested up to the
    decoder's depth limit): the bytes `to_vec` produces, followed by *anything*,
    decode to exactly `v`, leaving exactly what followed. -/
theorem value_roundtrip (v : Value) (hw : WF v) (hn : nest v ≤ MAX_NESTING_DEPTH) (e tail : Bytes)
    (he : encode v = some e) : decode (e ++ tail) = .ok (v, tail) := by
  have hc := cost_le .none v hw e he
  have hf : cost v ≤ ((e ++ tail).length + 1) * (MAX_ARRAY_COUNT + 2) := by
    simp only [List.length_append, MAX_ARRAY_COUNT]
    have : 4 * e.length ≤ (e.length + tail.length + 1) * 65538 := by
      calc 4 * e.length ≤ 65538 * e.length := by omega
        _ ≤ 65538 * (e.length + tail.length + 1) := by apply Nat.mul_le_mul_left; omega
        _ = (e.length + tail.length + 1) * 65538 := Nat.mul_comm _ _
    omega
  simp only [decode, rt v hw e he tail _ MAX_NESTING_DEPTH MAX_ARRAY_COUNT hf hn, bind, Except.bind,
    pure, Except.pure]

/-- In particular `from_slice(to_vec(v)) = v`. -/
theorem decode_encode (v : Value) (hw : WF v) (hn : nest v ≤ MAX_NESTING_DEPTH) (e : Bytes)
    (he : encode v = some e) : decode e = .ok (v, []) := by
  have := value_roundtrip v hw hn e [] he
  simpa using this

/-- **enc_total_on_small.** Encoding fails only through a length limit: a scalar
    or a string / binary / symbol shorter than 2^32 - 4 bytes always encodes. -/
theorem enc_scalar_total (k : VarKind) (bs : Bytes) (h : bs.length ≤ U32_MAX_MINUS_4) :
    ∃ e, encode (.var k bs) = some e := by
  simp only [encode, enc, encVar]
  split
  · exact ⟨_, rfl⟩
  · simp [h]

/-- generated obligation: the byte accepted by `TryFrom<u8>` for each variant is
    that variant's discriminant (the decoder and the encoder use the same table) -/
theorem codes_consistent : ∀ p ∈ tryFromArms, p.1 = p.2 := by decide

theorem codes_complete : tryFromArms.map (·.2) = discriminants := by decide

/-! ### non-vacuity: a nested value with every kind of node meets the hypotheses -/

def sample : Value :=
  .list [.null, .bool true, .fixed .uint [0, 0, 0, 5], .fixed .int [255, 255, 255, 128],
    .var .string [104, 105], .map [.var .symbol [97], .fixed .long [0, 0, 0, 0, 0, 0, 1, 0]],
    .array [.fixed .ushort [0, 1], .fixed .ushort [0, 2]],
    .described (.fixed .ulong [0, 0, 0, 0, 0, 0, 0, 112]) (.list [])]

example : WF sample := by
  simp [sample, WF, WFAll, SameSimple, elemCode, FixedKind.width, MAX_ARRAY_COUNT, validUtf8,
    flattenPairs, insertAll, mapInsert]

example : nest sample ≤ MAX_NESTING_DEPTH := by decide
example : (encode sample).isSome = true := by decide

end Amqp.Codec
