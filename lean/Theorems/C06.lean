/-
  C06 — Frames on the wire: intact, within max-frame-size, under any fragmentation.

  Quantifiers: every max-frame-size, every payload (any length), every
  performative encoding (opaque byte strings subject to the explicit `Fits`
  hypotheses), every partition of the byte stream into reads.
-/
import Theorems.Lemmas.Frame
import Theorems.TransferFits
import Theorems.FrameBody

namespace Amqp.Frame
open Amqp.Gen.FrameK

/-- encoder limit `E` (bytes after the length prefix) and body limit `B = E - 4` -/
theorem body_of_encoder (E : Nat) : frameEncoderBody E = E - 4 := rfl

/-- what `set_encoder_max_frame_size` installs for a negotiated max-frame-size `M` -/
theorem encoder_of_negotiated (M : Nat) : encoderMaxLen M = Nat.max 512 M - 4 := rfl

/-- the frames `encode_transfer` writes: first performative, continuation
    performatives, last performative — or the single unsplit frame -/
theorem transfer_split (B : Nat) (p : Perfs) (payload : Bytes) (hf : Fits B p) :
    payloadOf (split B p payload) = payload ∧
    ((split B p payload = [(p.p0, payload)] ∧ p.p0.length + payload.length ≤ B) ∨
     (∃ (cs : List Bytes) (rest : Bytes), split B p payload =
        (p.p1, payload.take (B - p.p1.length)) :: cs.map (fun c => (p.p2, c)) ++ [(p.p3, rest)] ∧
        p.p0.length + payload.length > B)) := by
  refine ⟨split_payload B p payload hf, ?_⟩
  by_cases h : encode_transfer.cond_if_0 p.p0.length payload.length B = true
  · right
    exact ⟨_, _, split_multi B p payload h, by simpa [encode_transfer.cond_if_0] using h⟩
  · left
    refine ⟨split_single B p payload h, ?_⟩
    simp [encode_transfer.cond_if_0] at h; omega

theorem frame_length (ch : Nat) (q c : Bytes) : (header ch ++ q ++ c).length = 4 + (q.length + c.length) := by
  simp [header]; omega

/-- **chunking_exact.** `start_send` cuts the encoder's buffer exactly at the frame
    boundaries: the chunks handed to the length-delimited encoder are the
    frames `encode_transfer` wrote, one by one. -/
theorem chunking_exact (E : Nat) (hE : 4 < E) (ch : Nat) (p : Perfs) (payload : Bytes)
    (hf : Fits (E - 4) p) :
    let frames := encodeTransfer (E - 4) ch p payload
    chunks E frames.flatten.length frames.flatten = frames := by
  intro frames
  obtain ⟨n, last, hl, hlast⟩ := split_sizes (E - 4) p payload hf
  -- lengths of the frames
  have hlens : frames.map List.length = List.replicate n E ++ [4 + last] := by
    have : frames.map List.length = (bodyLens (split (E - 4) p payload)).map (4 + ·) := by
      simp only [frames, encodeTransfer, bodyLens, List.map_map]
      apply List.map_congr_left
      intro qc _
      simp only [Function.comp]
      exact frame_length ch qc.1 qc.2
    rw [this, hl]
    simp only [List.map_append, List.map_replicate, List.map_cons, List.map_nil]
    congr 2
    omega
  -- split the frame list into the full ones and the last
  have hne : frames ≠ [] := by
    intro h0; rw [h0] at hlens; simp at hlens
  obtain ⟨fs, lastf, hfs⟩ : ∃ fs lastf, frames = fs ++ [lastf] :=
    ⟨frames.dropLast, frames.getLast hne, (List.dropLast_concat_getLast hne).symm⟩
  rw [hfs] at hlens ⊢
  simp only [List.map_append, List.map_cons, List.map_nil] at hlens
  have hlen_eq := List.append_inj' hlens (by simp)
  have hfull : ∀ f ∈ fs, f.length = E := by
    intro f hfm
    have : f.length ∈ fs.map List.length := List.mem_map_of_mem hfm
    rw [hlen_eq.1] at this
    exact (List.mem_replicate.mp this).2
  have hlastlen : lastf.length = 4 + last := by
    have := hlen_eq.2; simpa using this
  have hflat : (fs ++ [lastf]).flatten = fs.flatten ++ lastf := by simp
  rw [hflat]
  exact chunks_exact E (by omega) fs lastf _ hfull (by omega) (by omega) (Nat.le_refl _)

/-- **frames_bounded.** Every frame put on the wire for a transfer (length
    prefix included) is at most `E + 4` bytes — the peer's max-frame-size when
    `E = max-frame-size - 4` — whatever the payload length. -/
theorem frames_bounded (E : Nat) (hE : 4 < E) (ch : Nat) (p : Perfs) (payload : Bytes)
    (hf : Fits (E - 4) p) : ∀ w ∈ wireTransfer E ch p payload, w.length ≤ E + 4 := by
  intro w hw
  simp only [wireTransfer, body_of_encoder] at hw
  rw [chunking_exact E hE ch p payload hf] at hw
  obtain ⟨f, hfm, rfl⟩ := List.mem_map.mp hw
  rw [prefixed_length]
  simp only [encodeTransfer, List.mem_map] at hfm
  obtain ⟨qc, hqc, rfl⟩ := hfm
  rw [frame_length]
  obtain ⟨n, last, hl, hlast⟩ := split_sizes (E - 4) p payload hf
  have : qc.1.length + qc.2.length ∈ bodyLens (split (E - 4) p payload) :=
    List.mem_map_of_mem (f := fun qc => qc.1.length + qc.2.length) hqc
  rw [hl] at this
  simp only [List.mem_append, List.mem_replicate, List.mem_singleton] at this
  rcases this with ⟨_, h⟩ | h <;> omega

/-- **stream_partition_indep.** The frames produced by the stream decoder, and
    whether it fails, depend only on the bytes received, not on how they were
    split across reads (1-byte reads, cuts inside the length field, …). -/
theorem stream_partition_indep (m : Nat) (cs1 cs2 : List Bytes) (h : cs1.flatten = cs2.flatten) :
    (feedAll m decInit cs1).2 = (feedAll m decInit cs2).2 ∧
    (feedAll m decInit cs1).1.failed = (feedAll m decInit cs2).1.failed := by
  have hd : Drained m decInit := fun _ => D_short m [] (by simp)
  obtain ⟨a1, a2, _⟩ := feedAll_flatten m cs1 decInit hd
  obtain ⟨b1, b2, _⟩ := feedAll_flatten m cs2 decInit hd
  rw [a1, a2, b1, b2, h]
  exact ⟨rfl, rfl⟩

/-- **wire_decodes.** Whatever partition of the wire bytes of a transfer the peer's
    reads see, a decoder whose max-frame-size is at least `E + 4` recovers exactly the frames
    `encode_transfer` wrote, in order, and nothing else. -/
theorem wire_decodes (E m : Nat) (hE : 4 < E) (hm : E + 4 ≤ m) (hbig : E + 4 < 4294967296)
    (ch : Nat) (p : Perfs) (payload : Bytes) (hf : Fits (E - 4) p)
    (reads : List Bytes) (hr : reads.flatten = (wireTransfer E ch p payload).flatten) :
    (feedAll m decInit reads).2 = encodeTransfer (E - 4) ch p payload ∧
    (feedAll m decInit reads).1.failed = none := by
  have hd : Drained m decInit := fun _ => D_short m [] (by simp)
  obtain ⟨a1, a2, _⟩ := feedAll_flatten m reads decInit hd
  rw [a1, a2, hr]
  have hw : wireTransfer E ch p payload = (encodeTransfer (E - 4) ch p payload).map prefixed := by
    simp only [wireTransfer, body_of_encoder]
    rw [chunking_exact E hE ch p payload hf]
  have hbound : ∀ c ∈ encodeTransfer (E - 4) ch p payload, c.length + 4 ≤ m ∧ c.length + 4 < 4294967296 := by
    intro c hc
    have := frames_bounded E hE ch p payload hf (prefixed c) (by rw [hw]; exact List.mem_map_of_mem hc)
    rw [prefixed_length] at this
    omega
  have := D_wire m _ hbound
  rw [feed_ok m decInit _ rfl, hw]
  simp only [decInit, List.nil_append, this]
  exact ⟨trivial, trivial⟩

/-! ### non-vacuity: `Fits` is met by concrete encodings and a multi-frame payload -/
def samplePerfs : Perfs :=
  { p0 := List.replicate 20 0x41, p1 := List.replicate 20 0x42,
    p2 := List.replicate 6 0x43, p3 := List.replicate 5 0x44 }

example : Fits (64 - 4) samplePerfs := ⟨by decide, by decide, by decide, by decide⟩
example : ((wireTransfer 64 3 samplePerfs (List.replicate 200 7)).map List.length) = [68, 68, 68, 65] := by
  decide +kernel

end Amqp.Frame
