/-
  C05 — encodings are valid AMQP 1.0, and every valid encoding variant is accepted.

  `Amqp.CodecSpec.sEnc ch v` is the encoding of `v` the specification permits when the encoder
  makes the choices `ch` (width variants, compact forms, list0, boolean 0x56, 8- or 32-bit
  headers); it is written with the specification's literal constructors.  The decoder accepts
  all of them, and what the encoder produces is one of them.
-/
import Theorems.Lemmas.CodecSpec
import Theorems.Typed
import Theorems.Enums

namespace Amqp.CodecSpec
open Amqp.Codec Amqp.Gen.Codes

/-! ## array elements: the specification's element data is what the implementation writes -/

/-- what is needed of an element constructor and an element body for the decoder to take them -/
structure ElemOk (v : Value) (c : UInt8) (d : Bytes) : Prop where
  notCompound : isCompoundCode c.toNat = false
  isCode : isCode c.toNat = true
  notZeroWidth : zeroWidth c.toNat = false
  nonEmpty : 1 ≤ d.length
  dec : ∀ rest, decScalar c.toNat (d ++ rest) = some (.ok (v, rest))

theorem sFixed_elem (form : Nat) (k : FixedKind) (bs : Bytes) (c : UInt8) (d : Bytes)
    (h : sFixed form k bs = some (c :: d)) (hf : form ≠ 2) (hch : k = .char → validChar bs = true) :
    ElemOk (.fixed k bs) c d := by
  unfold sFixed at h
  split at h
  · simp at h
  · rename_i hlen
    have hw : bs.length = k.width := by rw [← width_eq]; simpa using hlen
    split at h
    · -- full width
      simp at h; obtain ⟨rfl, rfl⟩ := h
      obtain ⟨c1, c2, c3⟩ := fixed_codes k
      rw [fullCode_eq]
      have hz : zeroWidth k.code = false := by cases k <;> decide
      refine ⟨by rw [b8_toNat _ c1]; exact c3, by rw [b8_toNat _ c1]; exact c2, by rw [b8_toNat _ c1]; exact hz,
        by rw [hw]; exact width_pos k, ?_⟩
      intro rest; rw [b8_toNat _ c1]; exact decScalar_fixed k bs rest hw hch
    · -- one byte
      split at h
      · rename_i x
        simp at h; obtain ⟨rfl, rfl⟩ := h
        refine ⟨by decide, by decide, by decide, by simp, ?_⟩
        intro rest
        show decScalar cSmallUint _ = _
        simp [decScalar, cSmallUint, cUint0, cUlong0, cNull, cBooleanTrue, cBooleanFalse, cBoolean,
          next?, bind, Except.bind, pure, Except.pure]
      · rename_i x
        simp at h; obtain ⟨rfl, rfl⟩ := h
        refine ⟨by decide, by decide, by decide, by simp, ?_⟩
        intro rest
        show decScalar cSmallUlong _ = _
        simp [decScalar, cSmallUlong, cSmallUint, cUint0, cUlong0, cNull, cBooleanTrue, cBooleanFalse, cBoolean,
          next?, bind, Except.bind, pure, Except.pure]
      · rename_i a b c' x
        split at h
        · rename_i hz
          obtain ⟨h1, h2, h3⟩ := hz
          subst h1 h2 h3
          simp at h; obtain ⟨rfl, rfl⟩ := h
          refine ⟨by decide, by decide, by decide, by simp, ?_⟩
          intro rest
          show decScalar cSmallInt _ = _
          simp [decScalar, cSmallInt, cSmallUlong, cSmallUint, cUint0, cUlong0, cNull, cBooleanTrue,
            cBooleanFalse, cBoolean, next?, bind, Except.bind, pure, Except.pure, sx_eq]
        · simp at h
      · rename_i a b c' x e' f g hh
        split at h
        · rename_i hz
          obtain ⟨h1, h2, h3, h4, h5, h6, h7⟩ := hz
          subst h1 h2 h3 h4 h5 h6 h7
          simp at h; obtain ⟨rfl, rfl⟩ := h
          refine ⟨by decide, by decide, by decide, by simp, ?_⟩
          intro rest
          show decScalar cSmallLong _ = _
          simp [decScalar, cSmallLong, cSmallInt, cSmallUlong, cSmallUint, cUint0, cUlong0, cNull, cBooleanTrue,
            cBooleanFalse, cBoolean, next?, bind, Except.bind, pure, Except.pure, sx_eq]
        · simp at h
      · simp at h
    · exact absurd rfl hf
    · simp at h

theorem sVar_elem (ew : Bool) (k : VarKind) (bs : Bytes) (c : UInt8) (d : Bytes)
    (h : sVar ew k bs = some (c :: d)) (hu : k ≠ .binary → validUtf8 bs = true) :
    ElemOk (.var k bs) c d := by
  obtain ⟨a1, a2, a3, b1, b2, b3⟩ := var_codes k
  unfold sVar at h
  cases ew with
  | true =>
    simp only [if_true] at h
    split at h
    · rename_i hl
      simp at h; obtain ⟨rfl, rfl⟩ := h
      rw [code32_eq, be32_eq]
      have hz : zeroWidth k.code32 = false := by cases k <;> decide
      refine ⟨by rw [b8_toNat _ b1]; exact b3, by rw [b8_toNat _ b1]; exact b2, by rw [b8_toNat _ b1]; exact hz,
        by simp [Codec.be32], ?_⟩
      intro rest; rw [b8_toNat _ b1]
      have := decScalar_var32 k (Codec.be32 bs.length) bs rest rfl (fromBe_be32 _ hl) hu
      simpa [List.append_assoc] using this
    · simp at h
  | false =>
    simp only [Bool.false_eq_true, if_false] at h
    split at h
    · rename_i hl
      simp at h; obtain ⟨rfl, rfl⟩ := h
      rw [code8_eq]
      have hz : zeroWidth k.code8 = false := by cases k <;> decide
      refine ⟨by rw [b8_toNat _ a1]; exact a3, by rw [b8_toNat _ a1]; exact a2, by rw [b8_toNat _ a1]; exact hz,
        by simp, ?_⟩
      intro rest; rw [b8_toNat _ a1]
      have := decScalar_var8 k bs rest hl hu
      simpa [b8] using this
    · simp at h

/-- every element choice the specification permits gives a constructor and a body the decoder takes -/
theorem sElemF_ok (form : Nat) (ew : Bool) (v : Value) (c : UInt8) (d : Bytes)
    (h : sElemF form ew v = some (c, d)) (hw : WF v) : ElemOk v c d := by
  cases v with
  | bool b =>
    simp [sElemF] at h; obtain ⟨rfl, rfl⟩ := h
    refine ⟨by decide, by decide, by decide, by simp, ?_⟩
    intro rest
    exact decScalar_boolean b rest
  | fixed k bs =>
    simp only [sElemF] at h
    split at h
    · simp at h
    · rename_i hf
      cases hs : sFixed form k bs with
      | none => simp [hs] at h
      | some e =>
        cases e with
        | nil => simp [hs] at h
        | cons c' d' =>
          simp [hs] at h; obtain ⟨rfl, rfl⟩ := h
          exact sFixed_elem form k bs c' d' hs hf hw.2
  | var k bs =>
    simp only [sElemF] at h
    cases hs : sVar ew k bs with
    | none => simp [hs] at h
    | some e =>
      cases e with
      | nil => simp [hs] at h
      | cons c' d' =>
        simp [hs] at h; obtain ⟨rfl, rfl⟩ := h
        exact sVar_elem ew k bs c' d' hs hw.1
  | null => simp [sElemF] at h
  | list _ => simp [sElemF] at h
  | map _ => simp [sElemF] at h
  | array _ => simp [sElemF] at h
  | described _ _ => simp [sElemF] at h


/-- an array's elements under any permitted element choice are taken by `ArrayAccess` one after the other -/
theorem decArr_spec (form : Nat) (ew : Bool) (c : UInt8) : ∀ (vs : List Value), WFAll vs →
    ∀ (body tail : Bytes), sElemsF form ew c vs = some body →
    ∀ (fuel depth zw startLen size : Nat), vs.length + 1 ≤ fuel → startLen ≤ size + tail.length →
    decArr fuel depth vs.length ⟨body ++ tail, some c.toNat, zw⟩ startLen size = .ok (vs, ⟨tail, none, zw⟩)
  | [], _, body, tail, h, fuel, depth, zw, startLen, size, hf, _ => by
    simp [sElemsF] at h; subst h
    cases fuel with
    | zero => omega
    | succ f => simp [decArr, pure, Except.pure]
  | v :: vs, hall, body, tail, h, fuel, depth, zw, startLen, size, hf, hs => by
    simp only [sElemsF, bind, Option.bind] at h
    cases he : sElemF form ew v with
    | none => simp [he] at h
    | some cb =>
      obtain ⟨c', d⟩ := cb
      simp only [he] at h
      split at h
      · simp at h
      · rename_i hcc
        have hcc' : c' = c := by simpa using hcc
        subst hcc'
        cases hr : sElemsF form ew c' vs with
        | none => simp [hr] at h
        | some rest =>
          simp [hr] at h; subst h
          have hw : WF v ∧ WFAll vs := hall
          have ok := sElemF_ok form ew v c' d he hw.1
          cases fuel with
          | zero => omega
          | succ f =>
            cases f with
            | zero => simp at hf
            | succ f' =>
              have hd := dec_elem f' depth c'.toNat (d ++ (rest ++ tail)) zw v (rest ++ tail) ok.notCompound
                (ok.dec (rest ++ tail))
              have ih := decArr_spec form ew c' vs hw.2 rest tail hr (f' + 1) depth zw startLen size
                (by simp at hf ⊢; omega) hs
              have hsz : ¬ (startLen - (rest ++ tail).length > size) := by
                simp only [List.length_append]; omega
              simp only [List.length_cons, decArr, List.append_assoc, hd, bind, Except.bind, hsz, if_false, ih,
                pure, Except.pure]

/-- the data of an element is never empty (no zero-width element constructor among the choices) -/
theorem sElemF_body_ne (form : Nat) (ew : Bool) (v : Value) (c : UInt8) (d : Bytes)
    (h : sElemF form ew v = some (c, d)) : 1 ≤ d.length := by
  cases v with
  | bool b => simp [sElemF] at h; rw [← h.2]; simp
  | fixed k bs =>
    simp only [sElemF] at h
    split at h
    · simp at h
    · rename_i hf
      cases hs : sFixed form k bs with
      | none => simp [hs] at h
      | some e =>
        cases e with
        | nil => simp [hs] at h
        | cons c' d' =>
          simp [hs] at h; obtain ⟨rfl, rfl⟩ := h
          unfold sFixed at hs
          split at hs
          · simp at hs
          · rename_i hlen
            split at hs
            · simp at hs; rw [← hs.2]
              have : bs.length = width k := by simpa using hlen
              rw [this, width_eq]; exact width_pos k
            · split at hs <;> (try split at hs) <;> simp at hs <;> (try (rw [← hs.2]; simp))
            · exact absurd rfl hf
            · simp at hs
  | var k bs =>
    simp only [sElemF] at h
    cases hs : sVar ew k bs with
    | none => simp [hs] at h
    | some e =>
      cases e with
      | nil => simp [hs] at h
      | cons c' d' =>
        simp [hs] at h; obtain ⟨rfl, rfl⟩ := h
        unfold sVar at hs
        cases ew <;> simp at hs <;> obtain ⟨_, _, rfl⟩ := hs <;> simp [CodecSpec.be32]
  | null => simp [sElemF] at h
  | list _ => simp [sElemF] at h
  | map _ => simp [sElemF] at h
  | array _ => simp [sElemF] at h
  | described _ _ => simp [sElemF] at h

theorem sElemsF_len (form : Nat) (ew : Bool) (c : UInt8) : ∀ (vs : List Value) (body : Bytes),
    sElemsF form ew c vs = some body → vs.length ≤ body.length
  | [], body, h => by simp
  | v :: vs, body, h => by
    simp only [sElemsF, bind, Option.bind] at h
    cases he : sElemF form ew v with
    | none => simp [he] at h
    | some cb =>
      obtain ⟨c', d⟩ := cb
      simp only [he] at h
      split at h
      · simp at h
      · cases hr : sElemsF form ew c vs with
        | none => simp [hr] at h
        | some rest =>
          simp [hr] at h; subst h
          have := sElemsF_len form ew c vs rest hr
          have hb := sElemF_body_ne form ew v c' d he
          simp only [List.length_cons, List.length_append]; omega

theorem sElemsF_cost (form : Nat) (ew : Bool) (c : UInt8) : ∀ (vs : List Value) (body : Bytes),
    sElemsF form ew c vs = some body → costAll vs = 2 * vs.length + 1
  | [], body, h => by simp [costAll]
  | v :: vs, body, h => by
    simp only [sElemsF, bind, Option.bind] at h
    cases he : sElemF form ew v with
    | none => simp [he] at h
    | some cb =>
      simp only [he] at h
      split at h
      · simp at h
      · cases hr : sElemsF form ew c vs with
        | none => simp [hr] at h
        | some rest =>
          have ih := sElemsF_cost form ew c vs rest hr
          have hc : cost v = 1 := by
            cases v <;> simp [sElemF] at he <;> simp [cost]
          simp only [costAll, hc, ih, List.length_cons]; omega

/-- the first element decides the constructor: it is the one `sElemsF` is run with -/
theorem sElemF_default (v : Value) (n : Nat) (hn : elemCode v = some n) (hw : WF v) (bd : Bytes)
    (he : enc .other v = some bd) : sElemF 0 true v = some (b8 n, bd) := by
  cases v with
  | bool b =>
    simp [elemCode] at hn; subst hn
    simp [enc, encBool] at he; subst he
    cases b <;> rfl
  | fixed k bs =>
    simp [elemCode] at hn; subst hn
    simp [enc, encFixed] at he; subst he
    have : bs.length = width k := by rw [width_eq]; exact hw.1
    simp [sElemF, sFixed, this, fullCode_eq]
  | var k bs =>
    simp [elemCode] at hn; subst hn
    simp [enc, encVar] at he; subst he
    have : bs.length < 4294967296 := hw.2
    simp [sElemF, sVar, this, code32_eq, be32_eq]
  | null => simp [elemCode] at hn
  | list _ => simp [elemCode] at hn
  | map _ => simp [elemCode] at hn
  | array _ => simp [elemCode] at hn
  | described _ _ => simp [elemCode] at hn

theorem sElemsF_default (n : Nat) : ∀ (vs : List Value), (∀ v ∈ vs, elemCode v = some n ∧ WF v) →
    ∀ (body : Bytes), encElems false vs = some body → sElemsF 0 true (b8 n) vs = some body
  | [], _, body, h => by simp [encElems] at h; subst h; rfl
  | v :: vs, hall, body, h => by
    simp only [encElems, Bool.false_eq_true, if_false, bind, Option.bind] at h
    cases h1 : enc .other v with
    | none => simp [h1] at h
    | some a =>
      cases h2 : encElems false vs with
      | none => simp [h1, h2] at h
      | some b =>
        simp [h1, h2] at h; subst h
        obtain ⟨hc, hw⟩ := hall v (by simp)
        have hs := sElemF_default v n hc hw a h1
        have ih := sElemsF_default n vs (fun w hw' => hall w (by simp [hw'])) b h2
        simp [sElemsF, hs, ih, bind, Option.bind]


theorem dec_array32_empty (fuel depth zw : Nat) (lb nb tail : Bytes) (hlb : lb.length = 4) (hnb : nb.length = 4)
    (hfn : fromBe nb = 0) (hd : 0 < depth) :
    dec (fuel + 1) depth ⟨b8 cArray32 :: (lb ++ (nb ++ tail)), none, zw⟩ = .ok (.array [], ⟨tail, none, zw⟩) := by
  have hd' : depth ≠ 0 := by omega
  have h1 : take? 4 (lb ++ (nb ++ tail)) = .ok (lb, nb ++ tail) := take?_append _ _ _ hlb
  have h2 : take? 4 (nb ++ tail) = .ok (nb, tail) := take?_append _ _ _ hnb
  have hA : isCode 240 = true := by decide
  simp [dec, codeOrPeek, codeOrRead, b8_toNat, cList8, cList0, cList32, cMap8, cMap32, cArray8, cArray32,
    cDescribedType, hA, h1, h2, hfn, hd', MAX_ARRAY_COUNT, bind, Except.bind, pure, Except.pure]

/-! ## the first byte of a descriptor -/

theorem spec_descriptor_head (cd : Ch) (d : Value) (a : Bytes)
    (hd : (∃ bs, d = .var .symbol bs) ∨ (∃ bs, d = .fixed .ulong bs)) (h : sEnc cd d = some a) :
    ∃ dcb r, a = dcb :: r ∧ isDescriptorCode dcb.toNat = true := by
  rcases hd with ⟨bs, rfl⟩ | ⟨bs, rfl⟩
  · cases cd with
    | leaf form wide =>
      simp only [sEnc, sVar] at h
      cases wide <;> simp at h <;> obtain ⟨_, rfl⟩ := h <;> exact ⟨_, _, rfl, by decide⟩
    | node w z cs => simp [sEnc] at h
    | desc a b => simp [sEnc] at h
  · cases cd with
    | leaf form wide =>
      simp only [sEnc, sFixed] at h
      split at h
      · simp at h
      · split at h <;> (try split at h) <;> (try split at h) <;>
          first
            | (exfalso; simp_all; done)
            | (simp at h; subst h; exact ⟨_, _, rfl, by decide⟩)
            | (simp at h; obtain ⟨_, rfl⟩ := h; exact ⟨_, _, rfl, by decide⟩)
    | node w z cs => simp [sEnc] at h
    | desc a b => simp [sEnc] at h

/-- an encoding has at least one byte -/
theorem sEnc_ne : ∀ (ch : Ch) (v : Value) (e : Bytes), sEnc ch v = some e → 1 ≤ e.length := by
  intro ch v e h
  cases v with
  | null => cases ch <;> simp [sEnc] at h <;> subst h <;> simp
  | bool b =>
    cases ch with
    | leaf form wide =>
      simp only [sEnc, sBool] at h
      split at h <;> simp at h <;> subst h <;> simp
    | node _ _ _ => simp [sEnc] at h
    | desc _ _ => simp [sEnc] at h
  | fixed k bs =>
    cases ch with
    | leaf form wide =>
      simp only [sEnc, sFixed] at h
      split at h
      · simp at h
      · split at h
        · simp at h; subst h; simp
        · split at h <;> (try split at h) <;> simp at h <;> subst h <;> simp
        · split at h <;> simp at h <;> subst h <;> simp
        · simp at h
    | node _ _ _ => simp [sEnc] at h
    | desc _ _ => simp [sEnc] at h
  | var k bs =>
    cases ch with
    | leaf form wide =>
      simp only [sEnc, sVar] at h
      cases wide <;> simp at h <;> obtain ⟨_, rfl⟩ := h <;> simp
    | node _ _ _ => simp [sEnc] at h
    | desc _ _ => simp [sEnc] at h
  | list vs =>
    cases ch with
    | node wide zero cs =>
      simp only [sEnc, bind, Option.bind] at h
      cases hb : sEncAll cs vs with
      | none => simp [hb] at h
      | some body =>
        simp only [hb] at h
        split at h
        · split at h <;> simp at h; subst h; simp
        · split at h
          · split at h <;> simp at h; subst h; simp
          · split at h <;> simp at h; subst h; simp
    | leaf _ _ => simp [sEnc] at h
    | desc _ _ => simp [sEnc] at h
  | map vs =>
    cases ch with
    | node wide zero cs =>
      simp only [sEnc, bind, Option.bind] at h
      cases hb : sEncAll cs vs with
      | none => simp [hb] at h
      | some body =>
        simp only [hb] at h
        split at h
        · simp at h
        · split at h
          · split at h <;> simp at h; subst h; simp
          · split at h <;> simp at h; subst h; simp
    | leaf _ _ => simp [sEnc] at h
    | desc _ _ => simp [sEnc] at h
  | array vs =>
    cases ch with
    | node wide zero cs =>
      cases vs with
      | nil =>
        simp only [sEnc] at h
        cases wide <;> simp at h <;> subst h <;> simp
      | cons v ws =>
        simp only [sEnc, bind, Option.bind] at h
        cases he : sElemF (elemChoice cs).1 (elemChoice cs).2 v with
        | none => simp [he] at h
        | some cb =>
          simp only [he] at h
          cases hb : sElemsF (elemChoice cs).1 (elemChoice cs).2 cb.1 (v :: ws) with
          | none => simp [hb] at h
          | some body =>
            simp only [hb] at h
            split at h
            · split at h <;> simp at h; subst h; simp
            · split at h <;> simp at h; subst h; simp
    | leaf _ _ => simp [sEnc] at h
    | desc _ _ => simp [sEnc] at h
  | described d v =>
    cases ch with
    | desc cd cv =>
      simp only [sEnc, bind, Option.bind] at h
      cases ha : sEnc cd d with
      | none => simp [ha] at h
      | some a =>
        cases hb : sEnc cv v with
        | none => simp [ha, hb] at h
        | some b =>
          simp only [ha, hb] at h
          split at h <;> simp at h <;> subst h <;> simp
    | leaf _ _ => simp [sEnc] at h
    | node _ _ _ => simp [sEnc] at h

theorem sEncAll_len : ∀ (cs : List Ch) (vs : List Value) (e : Bytes), sEncAll cs vs = some e → vs.length ≤ e.length
  | [], [], e, h => by simp
  | c :: cs, v :: vs, e, h => by
    simp only [sEncAll, bind, Option.bind] at h
    cases ha : sEnc c v with
    | none => simp [ha] at h
    | some a =>
      cases hb : sEncAll cs vs with
      | none => simp [ha, hb] at h
      | some b =>
        simp [ha, hb] at h; subst h
        have := sEnc_ne c v a ha
        have := sEncAll_len cs vs b hb
        simp only [List.length_cons, List.length_append]; omega
  | [], _ :: _, e, h => by simp [sEncAll] at h
  | _ :: _, [], e, h => by simp [sEncAll] at h

/-! ## the decoder accepts every encoding the specification permits -/

mutual
  theorem srt : ∀ (v : Value), WF v → ∀ (ch : Ch) (e : Bytes), sEnc ch v = some e →
      ∀ (tail : Bytes) (fuel depth zw : Nat), cost v ≤ fuel → nest v ≤ depth →
      dec fuel depth ⟨e ++ tail, none, zw⟩ = .ok (v, ⟨tail, none, zw⟩)
    | .null, _, ch, e, he, tail, fuel, depth, zw, hf, _ => by
      have : e = [b8 cNull] := by cases ch <;> simp [sEnc] at he <;> subst he <;> rfl
      subst this
      cases fuel with
      | zero => simp [cost] at hf
      | succ f => exact dec_null f depth zw tail
    | .bool b, _, ch, e, he, tail, fuel, depth, zw, hf, _ => by
      cases fuel with
      | zero => simp [cost] at hf
      | succ f =>
        cases ch with
        | leaf form wide => exact dec_bool f depth zw form b e tail (by simpa [sEnc] using he)
        | node _ _ _ => simp [sEnc] at he
        | desc _ _ => simp [sEnc] at he
    | .fixed k bs, hw, ch, e, he, tail, fuel, depth, zw, hf, _ => by
      cases fuel with
      | zero => simp [cost] at hf
      | succ f =>
        cases ch with
        | leaf form wide => exact dec_fixed f depth zw form k bs e tail (by simpa [sEnc] using he) hw.2
        | node _ _ _ => simp [sEnc] at he
        | desc _ _ => simp [sEnc] at he
    | .var k bs, hw, ch, e, he, tail, fuel, depth, zw, hf, _ => by
      cases fuel with
      | zero => simp [cost] at hf
      | succ f =>
        cases ch with
        | leaf form wide => exact dec_var f depth zw wide k bs e tail (by simpa [sEnc] using he) hw.1
        | node _ _ _ => simp [sEnc] at he
        | desc _ _ => simp [sEnc] at he
    | .list vs, hw, ch, e, he, tail, fuel, depth, zw, hf, hd => by
      have hw' : WFAll vs ∧ vs.length ≤ MAX_ARRAY_COUNT := hw
      have hdep : 0 < depth := by simp only [nest] at hd; omega
      cases ch with
      | leaf _ _ => simp [sEnc] at he
      | desc _ _ => simp [sEnc] at he
      | node wide zero cs =>
        simp only [sEnc, bind, Option.bind] at he
        cases hb : sEncAll cs vs with
        | none => simp [hb] at he
        | some body =>
          simp only [hb] at he
          have hlen := sEncAll_len cs vs body hb
          cases fuel with
          | zero => simp [cost] at hf
          | succ f =>
            have ih := srtAll vs hw'.1 cs body hb tail f (depth - 1) zw (by simp only [cost] at hf; omega)
              (by simp only [nest] at hd; omega)
            split at he
            · -- list0
              split at he
              · rename_i hz hemp
                simp at he; subst he
                have : vs = [] := by simpa using hemp
                subst this
                exact dec_list0 f depth zw tail hdep
              · simp at he
            · split at he
              · -- list32
                split at he
                · rename_i hc
                  cases he
                  have := dec_list32 f depth zw vs.length (body.length + 4)
                    (Codec.be32 (body.length + 4)) (Codec.be32 vs.length) (body ++ tail) rfl rfl
                    (fromBe_be32 _ hc.1) (fromBe_be32 _ hc.2) (by omega) hw'.2 hdep
                  simp only [be32_eq, List.cons_append, List.append_assoc] at this ⊢
                  rw [show (0xd0 : UInt8) = b8 cList32 from rfl, this, ih]; rfl
                · simp at he
              · -- list8
                split at he
                · rename_i hc
                  cases he
                  have := dec_list8 f depth zw vs.length (body.length + 1) (body ++ tail) (by omega) hc.1 hc.2 hdep
                  simp only [List.cons_append] at this ⊢
                  rw [show (0xc0 : UInt8) = b8 cList8 from rfl, show UInt8.ofNat (body.length + 1) = b8 (body.length + 1) from rfl,
                    show UInt8.ofNat vs.length = b8 vs.length from rfl, this, ih]; rfl
                · simp at he
    | .map vs, hw, ch, e, he, tail, fuel, depth, zw, hf, hd => by
      have hw' : WFAll vs ∧ vs.length % 2 = 0 ∧ vs.length ≤ MAX_ARRAY_COUNT ∧
          flattenPairs (insertAll [] vs) = vs := hw
      have hdep : 0 < depth := by simp only [nest] at hd; omega
      cases ch with
      | leaf _ _ => simp [sEnc] at he
      | desc _ _ => simp [sEnc] at he
      | node wide zero cs =>
        simp only [sEnc, bind, Option.bind] at he
        cases hb : sEncAll cs vs with
        | none => simp [hb] at he
        | some body =>
          simp only [hb] at he
          cases fuel with
          | zero => simp [cost] at hf
          | succ f =>
            have ih := srtAll vs hw'.1 cs body hb tail f (depth - 1) zw (by simp only [cost] at hf; omega)
              (by simp only [nest] at hd; omega)
            split at he
            · simp at he
            · split at he
              · split at he
                · rename_i hc
                  cases he
                  have := dec_map32 f depth zw vs.length (body.length + 4)
                    (Codec.be32 (body.length + 4)) (Codec.be32 vs.length) (body ++ tail) rfl rfl
                    (fromBe_be32 _ hc.1) (fromBe_be32 _ hc.2) (by omega) hw'.2.2.1 hw'.2.1 hdep
                  simp only [be32_eq, List.cons_append, List.append_assoc] at this ⊢
                  rw [show (0xd1 : UInt8) = b8 cMap32 from rfl, this, ih]
                  simp only [bind, Except.bind, pure, Except.pure, hw'.2.2.2]
                · simp at he
              · split at he
                · rename_i hc
                  cases he
                  have := dec_map8 f depth zw vs.length (body.length + 1) (body ++ tail) (by omega) hc.1 hc.2 hw'.2.1 hdep
                  simp only [List.cons_append] at this ⊢
                  rw [show (0xc1 : UInt8) = b8 cMap8 from rfl, show UInt8.ofNat (body.length + 1) = b8 (body.length + 1) from rfl,
                    show UInt8.ofNat vs.length = b8 vs.length from rfl, this, ih]
                  simp only [bind, Except.bind, pure, Except.pure, hw'.2.2.2]
                · simp at he
    | .array vs, hw, ch, e, he, tail, fuel, depth, zw, hf, hd => by
      have hw' : WFAll vs ∧ vs.length ≤ MAX_ARRAY_COUNT ∧ SameSimple vs := hw
      have hdep : 0 < depth := by simp only [nest] at hd; omega
      cases ch with
      | leaf _ _ => simp [sEnc] at he
      | desc _ _ => simp [sEnc] at he
      | node wide zero cs =>
        cases fuel with
        | zero => simp [cost] at hf
        | succ f =>
          cases vs with
          | nil =>
            simp only [sEnc] at he
            cases wide with
            | true =>
              simp at he; subst he
              have := dec_array32_empty f depth zw (Codec.be32 4) (Codec.be32 0) tail rfl rfl (fromBe_be32 0 (by omega)) hdep
              simp only [be32_eq, List.cons_append, List.append_assoc] at this ⊢
              rw [show (0xf0 : UInt8) = b8 cArray32 from rfl]; exact this
            | false =>
              simp at he; subst he
              exact dec_array8_empty f depth zw 1 tail (by decide) hdep
          | cons v ws =>
            simp only [sEnc, bind, Option.bind] at he
            cases hel : sElemF (elemChoice cs).1 (elemChoice cs).2 v with
            | none => simp [hel] at he
            | some cb =>
              obtain ⟨c, b0⟩ := cb
              simp only [hel] at he
              cases hbody : sElemsF (elemChoice cs).1 (elemChoice cs).2 c (v :: ws) with
              | none => simp [hbody] at he
              | some body =>
                simp only [hbody] at he
                have hwv : WF v := WFAll_mem _ hw'.1 v (by simp)
                have ok := sElemF_ok _ _ v c b0 hel hwv
                have c1 : c.toNat < 256 := c.toNat_lt
                have c2 := ok.isCode
                have c3 := ok.notZeroWidth
                have hcount := sElemsF_len _ _ c (v :: ws) body hbody
                have harr := decArr_spec _ _ c (v :: ws) hw'.1 body tail hbody f (depth - 1) zw
                  (body ++ tail).length body.length
                  (by have := costAll_ge (v :: ws); simp only [cost] at hf; omega)
                  (by simp only [List.length_append]; omega)
                have hcn : c = b8 c.toNat := by simp [b8]
                generalize hn : c.toNat = n at *
                subst hcn
                split at he
                · split at he
                  · rename_i hc
                    cases he
                    have := dec_array32 f depth zw (v :: ws).length (body.length + 5) n
                      (Codec.be32 (body.length + 5)) (Codec.be32 (v :: ws).length) (body ++ tail)
                      rfl rfl (fromBe_be32 _ hc.1) (fromBe_be32 _ hc.2) (by omega) (by simp)
                      (by omega) hw'.2.1 c1 c2 c3 hdep
                    simp only [be32_eq, List.cons_append, List.append_assoc, List.length_cons] at this ⊢
                    rw [show (0xf0 : UInt8) = b8 cArray32 from rfl, this]
                    have e2 : body.length + 5 - 5 = body.length := by omega
                    simp only [List.length_cons] at harr
                    rw [e2, harr]; rfl
                  · simp at he
                · split at he
                  · rename_i hc
                    cases he
                    have := dec_array8 f depth zw (v :: ws).length (body.length + 2) n (body ++ tail)
                      (by omega) hc.1 (by simp) (by omega) c1 c2 c3 hdep
                    simp only [List.cons_append, List.length_cons] at this ⊢
                    rw [show (0xe0 : UInt8) = b8 cArray8 from rfl,
                      show UInt8.ofNat (body.length + 2) = b8 (body.length + 2) from rfl,
                      show UInt8.ofNat (ws.length + 1) = b8 (ws.length + 1) from rfl, this]
                    have e2 : body.length + 2 - 2 = body.length := by omega
                    simp only [List.length_cons] at harr
                    rw [e2, harr]; rfl
                  · simp at he
    | .described d v, hw, ch, e, he, tail, fuel, depth, zw, hf, hd => by
      have hw' : ((∃ bs, d = .var .symbol bs) ∨ (∃ bs, d = .fixed .ulong bs)) ∧ WF d ∧ WF v := hw
      have hdep : 0 < depth := by simp only [nest] at hd; omega
      cases ch with
      | leaf _ _ => simp [sEnc] at he
      | node _ _ _ => simp [sEnc] at he
      | desc cd cv =>
        simp only [sEnc, bind, Option.bind] at he
        cases h1 : sEnc cd d with
        | none => simp [h1] at he
        | some a =>
          cases h2 : sEnc cv v with
          | none => simp [h1, h2] at he
          | some b =>
            simp only [h1, h2] at he
            have hee : e = 0x00 :: a ++ b := by
              rcases hw'.1 with ⟨bs, rfl⟩ | ⟨bs, rfl⟩ <;> simp at he <;> exact he.symm
            subst hee
            cases fuel with
            | zero => simp [cost] at hf
            | succ f =>
              obtain ⟨dcb, r, ea, hdc⟩ := spec_descriptor_head cd d a hw'.1 h1
              subst ea
              have i1 := srt d hw'.2.1 cd (dcb :: r) h1 (b ++ tail) f (depth - 1) zw
                (by simp only [cost] at hf; omega) (by simp only [nest] at hd; omega)
              have i2 := srt v hw'.2.2 cv b h2 tail f (depth - 1) zw (by simp only [cost] at hf; omega)
                (by simp only [nest] at hd; omega)
              have hne : 1 ≤ b.length := sEnc_ne cv v b h2
              have hnotempty : (b ++ tail).isEmpty = false := by
                cases b with
                | nil => simp at hne
                | cons x xs => rfl
              have := dec_described f depth zw dcb (r ++ (b ++ tail)) hdc hdep
              simp only [List.cons_append, List.append_assoc] at this i1 ⊢
              rw [show (0x00 : UInt8) = b8 cDescribedType from rfl, this, i1]
              simp only [bind, Except.bind, hnotempty, Bool.false_eq_true, if_false, i2, pure, Except.pure]
  theorem srtAll : ∀ (vs : List Value), WFAll vs → ∀ (cs : List Ch) (e : Bytes), sEncAll cs vs = some e →
      ∀ (tail : Bytes) (fuel depth zw : Nat), costAll vs ≤ fuel → nestAll vs ≤ depth →
      decN fuel depth vs.length ⟨e ++ tail, none, zw⟩ = .ok (vs, ⟨tail, none, zw⟩)
    | [], _, cs, e, he, tail, fuel, depth, zw, hf, _ => by
      have : e = [] := by cases cs <;> simp [sEncAll] at he <;> exact he
      subst this
      cases fuel with
      | zero => simp [costAll] at hf
      | succ f => simp [decN, pure, Except.pure]
    | v :: vs, hw, cs, e, he, tail, fuel, depth, zw, hf, hd => by
      have hw' : WF v ∧ WFAll vs := hw
      cases cs with
      | nil => simp [sEncAll] at he
      | cons c cs =>
        simp only [sEncAll, bind, Option.bind] at he
        cases h1 : sEnc c v with
        | none => simp [h1] at he
        | some a =>
          cases h2 : sEncAll cs vs with
          | none => simp [h1, h2] at he
          | some b =>
            simp [h1, h2] at he; subst he
            cases fuel with
            | zero => simp [costAll] at hf
            | succ f =>
              have i1 := srt v hw'.1 c a h1 (b ++ tail) f depth zw (by simp only [costAll] at hf; omega)
                (by simp only [nestAll] at hd; omega)
              have i2 := srtAll vs hw'.2 cs b h2 tail f depth zw (by simp only [costAll] at hf; omega)
                (by simp only [nestAll] at hd; omega)
              simp only [List.length_cons, decN, List.append_assoc, i1, bind, Except.bind, i2, pure, Except.pure]
end


/-! ## the decoder's fuel is enough for any permitted encoding -/

mutual
  theorem sEnc_cost : ∀ (v : Value) (ch : Ch) (e : Bytes), sEnc ch v = some e → cost v + 1 ≤ 4 * e.length
    | .null, ch, e, h => by have := sEnc_ne ch _ e h; simp only [cost]; omega
    | .bool b, ch, e, h => by have := sEnc_ne ch _ e h; simp only [cost]; omega
    | .fixed k bs, ch, e, h => by have := sEnc_ne ch _ e h; simp only [cost]; omega
    | .var k bs, ch, e, h => by have := sEnc_ne ch _ e h; simp only [cost]; omega
    | .list vs, ch, e, h => by
      cases ch with
      | leaf _ _ => simp [sEnc] at h
      | desc _ _ => simp [sEnc] at h
      | node wide zero cs =>
        simp only [sEnc, bind, Option.bind] at h
        cases hb : sEncAll cs vs with
        | none => simp [hb] at h
        | some body =>
          simp only [hb] at h
          have ih := sEncAll_cost vs cs body hb
          split at h
          · split at h
            · rename_i hemp
              cases h
              have : vs = [] := by simpa using hemp
              subst this
              simp [cost, costAll]
            · simp at h
          · split at h
            · split at h
              · cases h; simp only [cost, List.length_cons, List.length_append, CodecSpec.be32]; simp; omega
              · simp at h
            · split at h
              · cases h; simp only [cost, List.length_cons]; omega
              · simp at h
    | .map vs, ch, e, h => by
      cases ch with
      | leaf _ _ => simp [sEnc] at h
      | desc _ _ => simp [sEnc] at h
      | node wide zero cs =>
        simp only [sEnc, bind, Option.bind] at h
        cases hb : sEncAll cs vs with
        | none => simp [hb] at h
        | some body =>
          simp only [hb] at h
          have ih := sEncAll_cost vs cs body hb
          split at h
          · simp at h
          · split at h
            · split at h
              · cases h; simp only [cost, List.length_cons, List.length_append, CodecSpec.be32]; simp; omega
              · simp at h
            · split at h
              · cases h; simp only [cost, List.length_cons]; omega
              · simp at h
    | .array vs, ch, e, h => by
      cases ch with
      | leaf _ _ => simp [sEnc] at h
      | desc _ _ => simp [sEnc] at h
      | node wide zero cs =>
        cases vs with
        | nil =>
          simp only [sEnc] at h
          cases wide <;> simp at h <;> subst h <;> simp [cost, costAll, CodecSpec.be32]
        | cons v ws =>
          simp only [sEnc, bind, Option.bind] at h
          cases hel : sElemF (elemChoice cs).1 (elemChoice cs).2 v with
          | none => simp [hel] at h
          | some cb =>
            simp only [hel] at h
            cases hbody : sElemsF (elemChoice cs).1 (elemChoice cs).2 cb.1 (v :: ws) with
            | none => simp [hbody] at h
            | some body =>
              simp only [hbody] at h
              have hc := sElemsF_cost _ _ cb.1 (v :: ws) body hbody
              have hl := sElemsF_len _ _ cb.1 (v :: ws) body hbody
              split at h
              · split at h
                · cases h; simp only [cost, hc, List.length_cons, List.length_append, CodecSpec.be32] at hl ⊢; simp; omega
                · simp at h
              · split at h
                · cases h; simp only [cost, hc, List.length_cons] at hl ⊢; omega
                · simp at h
    | .described d v, ch, e, h => by
      cases ch with
      | leaf _ _ => simp [sEnc] at h
      | node _ _ _ => simp [sEnc] at h
      | desc cd cv =>
        simp only [sEnc, bind, Option.bind] at h
        cases h1 : sEnc cd d with
        | none => simp [h1] at h
        | some a =>
          cases h2 : sEnc cv v with
          | none => simp [h1, h2] at h
          | some b =>
            simp only [h1, h2] at h
            have i1 := sEnc_cost d cd a h1
            have i2 := sEnc_cost v cv b h2
            split at h <;> (try (simp at h; done)) <;> (cases h; simp only [cost, List.length_cons, List.length_append]; omega)
  theorem sEncAll_cost : ∀ (vs : List Value) (cs : List Ch) (e : Bytes), sEncAll cs vs = some e → costAll vs ≤ 1 + 4 * e.length
    | [], cs, e, h => by simp [costAll]
    | v :: vs, cs, e, h => by
      cases cs with
      | nil => simp [sEncAll] at h
      | cons c cs =>
        simp only [sEncAll, bind, Option.bind] at h
        cases h1 : sEnc c v with
        | none => simp [h1] at h
        | some a =>
          cases h2 : sEncAll cs vs with
          | none => simp [h1, h2] at h
          | some b =>
            simp [h1, h2] at h; subst h
            have := sEnc_cost v c a h1
            have := sEncAll_cost vs cs b h2
            simp only [costAll, List.length_append]; omega
end


/-! ## what the encoder writes is one of the permitted encodings -/

mutual
  theorem enc_is_spec : ∀ (v : Value), WF v → ∀ (e : Bytes), enc .none v = some e → ∃ ch, sEnc ch v = some e
    | .null, _, e, he => by
      simp [enc] at he; subst he
      exact ⟨.leaf 0 false, rfl⟩
    | .bool b, _, e, he => by
      simp [enc, encBool] at he; subst he
      exact ⟨.leaf 0 false, by cases b <;> rfl⟩
    | .fixed k bs, hw, e, he => by
      have hlen : ¬ bs.length ≠ width k := by rw [width_eq]; simpa using hw.1
      simp only [enc, encFixed, Option.some.injEq] at he
      cases hs : smallForm k bs with
      | none =>
        simp only [hs] at he; subst he
        exact ⟨.leaf 0 false, by simp [sEnc, sFixed, hlen, fullCode_eq]⟩
      | some s =>
        simp only [hs] at he; subst he
        -- which compact form it is
        unfold smallForm at hs
        split at hs
        · rename_i a b c d
          split at hs
          · rename_i hz
            obtain ⟨rfl, rfl, rfl⟩ := hz
            split at hs
            · rename_i hd; subst hd
              simp at hs; subst hs
              exact ⟨.leaf 2 false, by simp [sEnc, sFixed, width]; rfl⟩
            · simp at hs; subst hs
              exact ⟨.leaf 1 false, by simp [sEnc, sFixed, width]; rfl⟩
          · simp at hs
        · rename_i a b c d e' f g hh
          split at hs
          · rename_i hz
            obtain ⟨rfl, rfl, rfl, rfl, rfl, rfl, rfl⟩ := hz
            split at hs
            · rename_i hd; subst hd
              simp at hs; subst hs
              exact ⟨.leaf 2 false, by simp [sEnc, sFixed, width]; rfl⟩
            · simp at hs; subst hs
              exact ⟨.leaf 1 false, by simp [sEnc, sFixed, width]; rfl⟩
          · simp at hs
        · rename_i a b c d
          split at hs
          · rename_i hz
            simp at hs; subst hs
            exact ⟨.leaf 1 false, by simp [sEnc, sFixed, width, sx_eq, hz]; rfl⟩
          · simp at hs
        · rename_i a b c d e' f g hh
          split at hs
          · rename_i hz
            simp at hs; subst hs
            exact ⟨.leaf 1 false, by simp [sEnc, sFixed, width, sx_eq, hz]; rfl⟩
          · simp at hs
        · simp at hs
    | .var k bs, hw, e, he => by
      simp only [enc, encVar] at he
      split at he
      · rename_i hl
        simp at he; subst he
        have : bs.length < 256 := by simp [U8_MAX_MINUS_1] at hl; omega
        exact ⟨.leaf 0 false, by simp [sEnc, sVar, this, code8_eq]; rfl⟩
      · split at he
        · rename_i hl
          simp at he; subst he
          have : bs.length < 4294967296 := hw.2
          exact ⟨.leaf 0 true, by simp [sEnc, sVar, this, code32_eq, be32_eq]⟩
        · simp at he
    | .list vs, hw, e, he => by
      have hw' : WFAll vs ∧ vs.length ≤ MAX_ARRAY_COUNT := hw
      simp only [enc, bind, Option.bind] at he
      cases hb : encAll vs with
      | none => simp [hb] at he
      | some buf =>
        simp only [hb] at he
        obtain ⟨cs, hcs⟩ := encAll_is_spec vs hw'.1 buf hb
        have hlen := encAll_len vs hw'.1 buf hb
        unfold writeList at he
        split at he
        · rename_i h0
          simp at he; subst he
          have hv : vs = [] := List.length_eq_zero_iff.mp (by omega)
          subst hv
          exact ⟨.node false true cs, by simp [sEnc, hcs, bind, Option.bind]; rfl⟩
        · split at he
          · rename_i h0 h8
            simp at he; subst he
            simp only [U8_MAX_MINUS_1] at h8
            have c1 : buf.length + 1 < 256 := by omega
            have c2 : vs.length < 256 := by omega
            exact ⟨.node false false cs, by
              simp [sEnc, hcs, bind, Option.bind, c1, c2, Ctx.writesCode, OFFSET_LIST8]
              exact ⟨rfl, by simp [b8], rfl⟩⟩
          · split at he
            · rename_i h0 h8 h32
              simp at he; subst he
              simp only [U32_MAX_MINUS_4] at h32
              have c1 : buf.length + 4 < 4294967296 := by omega
              have c2 : vs.length < 4294967296 := by have := hw'.2; simp [MAX_ARRAY_COUNT] at this; omega
              exact ⟨.node true false cs, by
                simp [sEnc, hcs, bind, Option.bind, c1, c2, Ctx.writesCode, OFFSET_LIST32, be32_eq]; rfl⟩
            · simp at he
    | .map vs, hw, e, he => by
      have hw' : WFAll vs ∧ vs.length % 2 = 0 ∧ vs.length ≤ MAX_ARRAY_COUNT ∧
          flattenPairs (insertAll [] vs) = vs := hw
      simp only [enc, bind, Option.bind] at he
      cases hb : encAll vs with
      | none => simp [hb] at he
      | some buf =>
        simp only [hb] at he
        obtain ⟨cs, hcs⟩ := encAll_is_spec vs hw'.1 buf hb
        have hlen := encAll_len vs hw'.1 buf hb
        have hev : ¬ vs.length % 2 ≠ 0 := by simp [hw'.2.1]
        unfold writeMap at he
        split at he
        · rename_i h8
          simp at he; subst he
          simp only [U8_MAX_MINUS_1] at h8
          have c1 : buf.length + 1 < 256 := by omega
          have c2 : vs.length < 256 := by omega
          exact ⟨.node false false cs, by
            simp [sEnc, hcs, bind, Option.bind, c1, c2, hw'.2.1, Ctx.writesCode, OFFSET_MAP8]
            exact ⟨rfl, by simp [b8], rfl⟩⟩
        · split at he
          · rename_i h8 h32
            simp at he; subst he
            simp only [U32_MAX_MINUS_4] at h32
            have c1 : buf.length + 4 < 4294967296 := by omega
            have c2 : vs.length < 4294967296 := by have := hw'.2.2.1; simp [MAX_ARRAY_COUNT] at this; omega
            exact ⟨.node true false cs, by
              simp [sEnc, hcs, bind, Option.bind, c1, c2, hw'.2.1, Ctx.writesCode, OFFSET_MAP32, be32_eq]; rfl⟩
          · simp at he
    | .array vs, hw, e, he => by
      have hw' : WFAll vs ∧ vs.length ≤ MAX_ARRAY_COUNT ∧ SameSimple vs := hw
      simp only [enc, bind, Option.bind] at he
      cases hb : encElems true vs with
      | none => simp [hb] at he
      | some buf =>
        simp only [hb] at he
        cases vs with
        | nil =>
          simp [encElems] at hb; subst hb
          simp [writeArray, U8_MAX_MINUS_1, Ctx.writesCode] at he; subst he
          exact ⟨.node false false [], by simp [sEnc]; exact ⟨rfl, rfl, rfl⟩⟩
        | cons v ws =>
          obtain ⟨c, hc⟩ := sameSimple_code v ws hw'.2.2
          have hall : ∀ w ∈ v :: ws, elemCode w = some c ∧ WF w :=
            fun w hw2 => ⟨hc w hw2, WFAll_mem _ hw'.1 w hw2⟩
          simp only [encElems, if_true, bind, Option.bind] at hb
          cases h1 : enc .first v with
          | none => simp [h1] at hb
          | some a =>
            cases h2 : encElems false ws with
            | none => simp [h1, h2] at hb
            | some b =>
              simp [h1, h2] at hb; subst hb
              obtain ⟨ao0, hao0⟩ := enc_other_some v (by rw [hc v (by simp)]; rfl)
              have hfirst := enc_first v c (hc v (by simp)) ao0 hao0
              rw [h1] at hfirst
              simp at hfirst; subst hfirst
              have hel : encElems false (v :: ws) = some (ao0 ++ b) := by
                simp [encElems, hao0, h2, bind, Option.bind]
              have hs1 := sElemF_default v c (hc v (by simp)) (hall v (by simp)).2 ao0 hao0
              have hs2 := sElemsF_default c (v :: ws) hall (ao0 ++ b) hel
              have hcount := encElems_len false (v :: ws) hw'.1 (ao0 ++ b) hel
              unfold writeArray at he
              split at he
              · rename_i h8
                simp at he; subst he
                simp only [U8_MAX_MINUS_1, List.length_cons, List.length_append] at h8
                have c1 : ao0.length + b.length + 2 < 256 := by omega
                have c2 : ws.length + 1 < 256 := by simp only [List.length_cons, List.length_append] at hcount; omega
                exact ⟨.node false false [], by
                  simp only [sEnc, elemChoice, hs1, hs2, bind, Option.bind, Bool.false_eq_true, if_false,
                    Ctx.writesCode, List.length_cons, List.length_append, List.cons_append, List.nil_append,
                    List.singleton_append, List.append_assoc]
                  rw [if_pos ⟨c1, c2⟩]
                  rfl⟩
              · split at he
                · rename_i h8 h32
                  simp at he; subst he
                  simp only [U32_MAX_MINUS_4, List.length_cons, List.length_append] at h32
                  have c1 : ao0.length + b.length + 5 < 4294967296 := by omega
                  have c2 : ws.length + 1 < 4294967296 := by have := hw'.2.1; simp [MAX_ARRAY_COUNT] at this ⊢; omega
                  exact ⟨.node true false [], by
                    simp only [sEnc, elemChoice, hs1, hs2, bind, Option.bind, if_true,
                      Ctx.writesCode, List.length_cons, List.length_append, List.cons_append, List.nil_append,
                      List.singleton_append, List.append_assoc, be32_eq]
                    rw [if_pos ⟨c1, c2⟩]
                    rfl⟩
                · simp at he
    | .described d v, hw, e, he => by
      have hw' : ((∃ bs, d = .var .symbol bs) ∨ (∃ bs, d = .fixed .ulong bs)) ∧ WF d ∧ WF v := hw
      simp only [enc, bind, Option.bind] at he
      cases h1 : enc .none d with
      | none => simp [h1] at he
      | some a =>
        cases h2 : enc .none v with
        | none => simp [h1, h2] at he
        | some b =>
          simp [h1, h2] at he; subst he
          obtain ⟨cd, hcd⟩ := enc_is_spec d hw'.2.1 a h1
          obtain ⟨cv, hcv⟩ := enc_is_spec v hw'.2.2 b h2
          refine ⟨.desc cd cv, ?_⟩
          rcases hw'.1 with ⟨bs, rfl⟩ | ⟨bs, rfl⟩ <;> simp [sEnc, hcd, hcv, bind, Option.bind] <;> rfl
  theorem encAll_is_spec : ∀ (vs : List Value), WFAll vs → ∀ (e : Bytes), encAll vs = some e → ∃ cs, sEncAll cs vs = some e
    | [], _, e, he => by simp [encAll] at he; subst he; exact ⟨[], rfl⟩
    | v :: vs, hw, e, he => by
      have hw' : WF v ∧ WFAll vs := hw
      simp only [encAll, bind, Option.bind] at he
      cases h1 : enc .none v with
      | none => simp [h1] at he
      | some a =>
        cases h2 : encAll vs with
        | none => simp [h1, h2] at he
        | some b =>
          simp [h1, h2] at he; subst he
          obtain ⟨c, hc⟩ := enc_is_spec v hw'.1 a h1
          obtain ⟨cs, hcs⟩ := encAll_is_spec vs hw'.2 b h2
          exact ⟨c :: cs, by simp [sEncAll, hc, hcs, bind, Option.bind]⟩
end

/-- **the bytes produced are a valid AMQP 1.0 encoding of exactly that value**: `to_vec` makes one
    of the choices the specification leaves to the encoder -/
theorem encoding_is_valid (v : Value) (hw : WF v) (e : Bytes) (he : encode v = some e) :
    ∃ ch, sEnc ch v = some e := enc_is_spec v hw e he

/-! ## the property -/

/-- **every valid encoding variant is accepted.**  Whatever choices the encoding peer makes among
    the encodings the specification permits for a value — zero-width, one-byte or full-width
    integers; boolean as 0x41 / 0x42 or as 0x56 with a byte; 8- or 32-bit lengths for binary,
    string and symbol; list0, list8 or list32; map8 or map32; array8 or array32 — at every node of
    a value nested up to the decoder's depth limit, the bytes, followed by anything, decode to
    exactly that value and leave exactly what followed. -/
theorem every_variant_accepted (v : Value) (hw : WF v) (hn : nest v ≤ MAX_NESTING_DEPTH) (ch : Ch) (e tail : Bytes)
    (he : sEnc ch v = some e) : decode (e ++ tail) = .ok (v, tail) := by
  have hc := sEnc_cost v ch e he
  have hf := fuel_enough v e tail hc
  have := srt v hw ch e he tail (decodeFuel (e ++ tail).length) MAX_NESTING_DEPTH MAX_ARRAY_COUNT hf hn
  unfold decode
  rw [this]
  rfl


/-! ## non-vacuity, and the recorded exception -/

/-- an array written with the one-byte integer constructor and an 8-bit header, and an array of
    strings with 8-bit lengths: both are encodings the specification gives for these choices, and both
    are accepted (the encoder itself never writes them) -/
example : sEnc (.node false false [.leaf 1 false]) (.array [.fixed .uint [0, 0, 0, 5], .fixed .uint [0, 0, 0, 6]]) =
    some [0xe0, 0x04, 0x02, 0x52, 0x05, 0x06] := by decide
example : sEnc (.node true false [.leaf 0 false]) (.array [.var .string [104, 105], .var .string [33]]) =
    some [0xf0, 0, 0, 0, 10, 0, 0, 0, 2, 0xa1, 2, 104, 105, 1, 33] := by decide
example : decode ([0xe0, 0x04, 0x02, 0x52, 0x05, 0x06] ++ [0x99]) =
    .ok (.array [.fixed .uint [0, 0, 0, 5], .fixed .uint [0, 0, 0, 6]], [0x99]) :=
  every_variant_accepted (.array [.fixed .uint [0, 0, 0, 5], .fixed .uint [0, 0, 0, 6]])
    (by simp [WF, WFAll, SameSimple, elemCode, FixedKind.width, MAX_ARRAY_COUNT])
    (by simp [nest, nestAll, MAX_NESTING_DEPTH])
    (.node false false [.leaf 1 false]) [0xe0, 0x04, 0x02, 0x52, 0x05, 0x06] [0x99] (by decide)


/-- a nested value written with none of the encoder's own choices (32-bit headers, one-byte
    boolean, full-width zero, 32-bit string length) is accepted -/
def sampleV : Value := .list [.bool true, .fixed .uint [0, 0, 0, 0], .var .string [104, 105],
  .map [.var .symbol [97], .fixed .long [255, 255, 255, 255, 255, 255, 255, 254]],
  .described (.fixed .ulong [0, 0, 0, 0, 0, 0, 0, 36]) (.list [])]

def sampleCh : Ch := .node true false [.leaf 1 false, .leaf 0 false, .leaf 0 true,
  .node true false [.leaf 0 true, .leaf 1 false], .desc (.leaf 1 false) (.node true false [])]

example : (sEnc sampleCh sampleV).isSome = true ∧ (sEnc sampleCh sampleV) ≠ encode sampleV := by decide

example : WF sampleV := by
  simp [sampleV, WF, WFAll, SameSimple, elemCode, FixedKind.width, MAX_ARRAY_COUNT, validUtf8,
    flattenPairs, insertAll, mapInsert]

example (e : Bytes) (h : sEnc sampleCh sampleV = some e) : decode e = .ok (sampleV, []) := by
  have hw : WF sampleV := by
    simp [sampleV, WF, WFAll, SameSimple, elemCode, FixedKind.width, MAX_ARRAY_COUNT, validUtf8,
      flattenPairs, insertAll, mapInsert]
  have := every_variant_accepted sampleV hw (by decide) sampleCh e [] h
  simpa using this

/-- the exception on record: an array whose elements have a zero-width constructor (here three
    `true`: `e0 02 03 41`) is a valid encoding which the decoder refuses, because it bounds the
    element count by the size field (a hardening against count-inflation pinned by the library's
    own tests).  Such constructors are outside `sEnc`, which writes array elements at full width. -/
theorem zero_width_array_refused (fuel depth zw : Nat) :
    dec (fuel + 1) depth ⟨[0xe0, 2, 3, 0x41], none, zw⟩ = .error .badValue := by
  have hA : isCode 224 = true := by decide
  simp [dec, codeOrPeek, codeOrRead, cList8, cList0, cList32, cMap8, cMap32, cArray8, cArray32,
    cDescribedType, hA, next?, MAX_ARRAY_COUNT, bind, Except.bind, pure, Except.pure]

end Amqp.CodecSpec

/-! ## typed composites: every variant a peer may choose is accepted -/

namespace Amqp.Typed
open Amqp.Codec Amqp.CodecSpec Amqp.Gen.Codes

/-- **typed_variants_accepted.** For every typed value of every declared composite, whatever the
    encoding peer chooses at the composite level (descriptor by name or by code; all, some or none of
    the trailing nulls; a default written out or left null; one symbol for a one-element `multiple`
    field — at every nested composite) *and* at the byte level (every width variant of every node,
    as in `every_variant_accepted`), the bytes, followed by anything, decode as that type to exactly
    the value and leave exactly what followed. -/
theorem typed_variants_accepted (env : List Schema) (hE : EnvOk env) (ty : FTy) (tv : TV) (tch : TCh)
    (h : TVOk env ty tv) (hn : nest (toTreeV env tch tv) ≤ MAX_NESTING_DEPTH) (bch : Ch) (e tail : Bytes)
    (he : sEnc bch (toTreeV env tch tv) = some e) :
    decodeTyped env ty (e ++ tail) = .ok (tv, tail) := by
  have hw : WF (toTreeV env tch tv) := WF_toTreeV env hE tv ty tch h
  have hd := every_variant_accepted (toTreeV env tch tv) hw hn bch e tail he
  have hf := fromTree_toTreeV env hE tv ty tch h
  unfold decodeTyped
  rw [hd]
  simp only [readTyped, hf]

/-- the same for the composites of the source -/
theorem typed_variants_accepted_source (ty : FTy) (tv : TV) (tch : TCh)
    (h : TVOk env ty tv) (hn : nest (toTreeV env tch tv) ≤ MAX_NESTING_DEPTH) (bch : Ch) (e tail : Bytes)
    (he : sEnc bch (toTreeV env tch tv) = some e) :
    decodeTyped env ty (e ++ tail) = .ok (tv, tail) :=
  typed_variants_accepted env env_ok ty tv tch h hn bch e tail he

/-- non-vacuity: the sample transfer with the descriptor by name, two trailing nulls kept and the
    `more` flag's neighbours written out -/
def sampleTCh : TCh := .comp true 2 [false, false, false, false, false, true, false, false, true] []

example : (toTreeV env sampleTCh sampleTransfer != toTree env sampleTransfer) = true := by decide +kernel
example : nest (toTreeV env sampleTCh sampleTransfer) ≤ MAX_NESTING_DEPTH := by decide +kernel

end Amqp.Typed
