/-
  C04 — Decoding untrusted bytes is total and resource-bounded.

  What is proved here (partial, see DESIGN.md §7 C04):
  * the decoder model is a total function by construction (structural recursion
    on fuel; `decode` supplies fuel from the input length): it returns a value
    or an error for every byte string — there is no other outcome in the model,
    and the guards whose absence made the implementation panic / over-allocate
    are *generated obligations* checked against the source on every run;
  * re-decode stability for every well-formed value: the encoding of what was
    decoded decodes to the same value (`redecode_stable`);
  * the decoder's limits are the ones the theorems of C03 assume.
  The remaining clauses (no panic, allocation ≤ c·len + c₀, bounded stack) are
  established on the implementation by the search (exhaustive short inputs,
  structure-aware corruptions, measured allocation, deep nesting), and the
  model is tied to the implementation on all of those inputs.
-/
import Theorems.C03
import Theorems.Lemmas.CodecDec

namespace Amqp.Codec
open Amqp.Gen.Codes

/-- generated obligations: every size-field adjustment is checked, every compound
    accessor passes the depth guard, both array arms pass the zero-width guard, odd
    map counts are rejected, no counter is decremented unchecked, and the reader
    does not allocate a length field's worth of memory up front -/
theorem decoder_guards_present :
    n_checked_offset_sub = 8 ∧ n_unchecked_offset_sub = 0 ∧ n_enter_compound_calls = 6 ∧
    n_zero_width_guard_calls = 2 ∧ map_rejects_odd_count = true ∧ n_unchecked_count_decrement = 0 ∧
    read_bytes_allocates_length_field = false := by decide

/-- the limits used by the model are the source's -/
theorem limits : MAX_NESTING_DEPTH = 128 ∧ MAX_ARRAY_COUNT = 65536 := by decide

/-- **redecode_stable** (for well-formed values): decode ∘ encode ∘ decode = decode. -/
theorem redecode_stable (bs : Bytes) (v : Value) (rest : Bytes) (_hdec : decode bs = .ok (v, rest))
    (hw : WF v) (hn : nest v ≤ MAX_NESTING_DEPTH) (e : Bytes) (he : encode v = some e) :
    decode e = .ok (v, []) :=
  decode_encode v hw hn e he

/-- the map visitor never makes a value deeper than its entries -/
theorem map_dedup_nest (vs : List Value) :
    nestAll (flattenPairs (insertAll [] vs)) ≤ nestAll vs := by
  have := nestAll_insertAll vs []
  simpa [flattenPairs, nestAll] using this

/-- hostile inputs of the corpus, decided by kernel evaluation of the model
    (the same inputs are run on the implementation on every check) -/
def errOf {α : Type} : Res α → Option DErr
  | .ok _ => none
  | .error e => some e

example : errOf (decode [0xc0, 0x00, 0x00]) = some .badLen := by decide +kernel
example : errOf (decode [0xc1, 0x02, 0x01, 0x40]) = some .badLen := by decide +kernel
example : errOf (decode [0xe0, 0x01, 0x01, 0x40]) = some .badLen := by decide +kernel
example : errOf (decode [0xb0, 0xff, 0xff, 0xff, 0xff]) = some .eof := by decide +kernel

end Amqp.Codec
