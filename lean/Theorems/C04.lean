/-
  C04 — Decoding untrusted bytes is total and resource-bounded.

  What is proved here (see DESIGN.md §7 C04):
  * on EVERY byte string (`decode_bounded`, `fuel_never_runs_out`): what the decoder returns is
    nested at most `MAX_NESTING_DEPTH` deep, what it leaves is a suffix of its input, its size is
    bounded by 17 × (input length + 65536), and the model's recursion counter never runs out;
  * the decoder model is a total function by construction (structural recursion
    on fuel; `decode` supplies fuel from the input length): it returns a value
    or an error for every byte string — there is no other outcome in the model,
    and the guards whose absence made the implementation panic / over-allocate
    are *generated obligations* checked against the source on every run;
  * re-decode stability for every well-formed value: the encoding of what was
    decoded decodes to the same value (`redecode_stable`);
  * the decoder's limits are the ones the theorems of C03 assume.
  The remaining clauses (no panic, allocation ≤ c·len + c₀, bounded stack) are
  established on the implementation by the search (exhaustive short inputs,
  structure-aware corruptions, measured allocation, deep nesting), and the
  model is tied to the implementation on all of those inputs.
-/
import Theorems.C03
import Theorems.Lemmas.CodecDec
import Theorems.Lazy

namespace Amqp.Codec
open Amqp.Gen.Codes

/-- generated obligations: every size-field adjustment is checked, every compound
    accessor passes the depth guard, both array arms pass the zero-width guard, odd
    map counts are rejected, no counter is decremented unchecked, and the reader
    does not allocate a length field's worth of memory up front -/
theorem decoder_guards_present :
    n_checked_offset_sub = 8 ∧ n_unchecked_offset_sub = 0 ∧ n_enter_compound_calls = 6 ∧
    n_zero_width_guard_calls = 2 ∧ map_rejects_odd_count = true ∧ n_unchecked_count_decrement = 0 ∧
    read_bytes_allocates_length_field = false := by decide

/-- the constructors the model charges against the budget of body-less array elements are the ones the
    source charges: null, true, false, uint0, ulong0, list0 — and no constructor that has a body, so that
    arrays of integers, timestamps, uuids … are bounded by their bytes alone -/
theorem source_zero_width_codes : ∀ c : Nat, zeroWidth c = zero_width_codes.contains c := by
  intro c
  simp [zeroWidth, zero_width_codes, List.contains_cons, Bool.or_assoc]

/-- the limits used by the model are the source's -/
theorem limits : MAX_NESTING_DEPTH = 128 ∧ MAX_ARRAY_COUNT = 65536 := by decide

/-- **redecode_stable** (for well-formed values): decode ∘ encode ∘ decode = decode. -/
theorem redecode_stable (bs : Bytes) (v : Value) (rest : Bytes) (_hdec : decode bs = .ok (v, rest))
    (hw : WF v) (hn : nest v ≤ MAX_NESTING_DEPTH) (e : Bytes) (he : encode v = some e) :
    decode e = .ok (v, []) :=
  decode_encode v hw hn e he

/-- the map visitor never makes a value deeper than its entries -/
theorem map_dedup_nest (vs : List Value) :
    nestAll (flattenPairs (insertAll [] vs)) ≤ nestAll vs := by
  have := nestAll_insertAll vs []
  simpa [flattenPairs, nestAll] using this

/-- **decode_bounded — on every byte string.**  Whatever `from_slice::<Value>` returns for whatever
    input: what it leaves is a suffix of the input (it consumed a prefix, read nothing else, invented
    nothing); the value is nested no deeper than the decoder's limit; and the size of the value
    (`mass`: one unit per node plus every payload byte) is at most 17 × (bytes consumed + the fixed
    budget of 65536 body-less array elements) — memory in proportion to the input, with the
    constant the decoder's `zero_width_budget` allows.  Proved by induction over the decoder with the
    invariant `StepInv` / `SeqInv` (Theorems/Lemmas/CodecDec.lean). -/
theorem decode_bounded (bs : Bytes) (v : Value) (rest : Bytes) (h : decode bs = .ok (v, rest)) :
    IsSuffix rest bs ∧ nest v ≤ MAX_NESTING_DEPTH ∧
    mass v + 17 * rest.length ≤ 17 * (bs.length + MAX_ARRAY_COUNT) := by
  unfold decode at h
  replace h := bind_ok h
  obtain ⟨x, hx, h⟩ := h
  simp [pure, Except.pure] at h
  obtain ⟨rfl, rfl⟩ := h
  have i := (dec_inv _).1 _ _ _ _ hx
  have m := i.mass
  simp only [slack_mk_none] at m
  try dsimp only at m
  exact ⟨i.suffix, i.nest, by omega⟩

/-- the same bound for every intermediate state of the decoder, not only the top-level call: any
    single value decoded at any point, with any element constructor in force -/
theorem dec_bounded (fuel depth : Nat) (st : DSt) (v : Value) (s : DSt) (h : dec fuel depth st = .ok (v, s)) :
    StepInv depth st v s := (dec_inv fuel).1 depth st v s h

/-- **fuel_never_runs_out — on every byte string.**  The model bounds its recursion by a counter; the
    implementation has none.  The counter never decides anything: `decode` never returns the model's
    own out-of-fuel error, because every recursive descent passes the depth guard (at most
    `MAX_NESTING_DEPTH` levels) and every sequence passes a count guard (at most `MAX_ARRAY_COUNT`
    entries per level; 255 for the one-byte headers).  So "returns a value or an error" is a
    statement about the decoding algorithm, not an artefact of cutting the recursion off. -/
theorem fuel_never_runs_out (bs : Bytes) : decode bs ≠ .error .fuel := by
  intro h
  unfold decode at h
  rcases bind_err h with h0 | ⟨x, _, h1⟩
  · exact (dec_nofuel _).1 _ _ (need_le_decodeFuel _) h0
  · simp [pure, Except.pure] at h1

/-- the decoder's progress: a decoding step that is not paid for by the body-less budget consumes at
    least one byte per node of the value it returns — there is no way to make it produce values
    without feeding it input -/
theorem nodes_paid_for (bs : Bytes) (v : Value) (rest : Bytes) (h : decode bs = .ok (v, rest)) :
    mass v ≤ 17 * (bs.length - rest.length + MAX_ARRAY_COUNT) := by
  obtain ⟨hs, _, hm⟩ := decode_bounded bs v rest h
  have := hs.len
  omega

/-- non-vacuity: a nested input (a list of a map, an array of three ubytes and a described empty list,
    followed by one more byte) decodes, and meets every clause: nesting 3, size 27 ≤ 17 × (22 + 65536) -/
example : (match decode [0xc0, 0x15, 0x03, 0xc1, 0x05, 0x02, 0xa3, 0x01, 0x61, 0x52, 0x07, 0xe0, 0x05, 0x03, 0x50,
      0x01, 0x02, 0x03, 0x00, 0x53, 0x24, 0x45, 0x99] with
    | .ok (v, rest) => some (nest v, mass v, rest)
    | .error _ => none) = some (3, 27, [0x99]) := by decide +kernel

/-- hostile inputs of the corpus, decided by kernel evaluation of the model
    (the same inputs are run on the implementation on every check) -/
def errOf {α : Type} : Res α → Option DErr
  | .ok _ => none
  | .error e => some e

example : errOf (decode [0xc0, 0x00, 0x00]) = some .badLen := by decide +kernel
example : errOf (decode [0xc1, 0x02, 0x01, 0x40]) = some .badLen := by decide +kernel
example : errOf (decode [0xe0, 0x01, 0x01, 0x40]) = some .badLen := by decide +kernel
example : errOf (decode [0xb0, 0xff, 0xff, 0xff, 0xff]) = some .eof := by decide +kernel

end Amqp.Codec
