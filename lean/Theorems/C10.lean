/-
  C10 — Reassembly is independent of how the peer fragments a delivery.
-/
import Amqp.Reasm
import Theorems.Chunks
import Theorems.TxnRoute
import Theorems.KeepTill

namespace Amqp.Reasm

/-- the source looks at the abort flag first (regenerated from `ReceiverInner::on_incoming_transfer`) -/
theorem source_abort_first : abortFirst = true := by decide

/-- a continuation frame that repeats or omits the delivery fields consistently
    with the first frame of the delivery -/
def Agrees (id : Nat) (tag : Bytes) (fmt : Option Nat) (f : Frame) : Prop :=
  (f.id = none ∨ f.id = some id) ∧ (f.tag = none ∨ f.tag = some tag) ∧
  (f.fmt = none ∨ f.fmt = fmt) ∧ f.aborted = false

/-- state after the first frame and some continuation frames: the fields of the
    first frame, the payload so far -/
def Partial (id : Nat) (tag : Bytes) (fmt : Option Nat) (i : Inc) : Prop :=
  i.id = some id ∧ i.tag = some tag ∧ i.fmt = fmt

theorem orAssign_same {α : Type} [DecidableEq α] (a : α) (o : Option α) (h : o = none ∨ o = some a) :
    orAssign (some a) o = some (some a) := by
  rcases h with rfl | rfl <;> simp [orAssign]

theorem orAssign_fmt (fmt o : Option Nat) (h : o = none ∨ o = fmt) : orAssign fmt o = some fmt := by
  cases fmt with
  | none => rcases h with rfl | rfl <;> simp [orAssign]
  | some a => exact orAssign_same a o h

theorem merge_agrees (id : Nat) (tag : Bytes) (fmt : Option Nat) (i : Inc) (f : Frame)
    (hp : Partial id tag fmt i) (ha : Agrees id tag fmt f) :
    ∃ i', merge i f = some i' ∧ Partial id tag fmt i' ∧ i'.buf = i.buf ++ [f.payload] := by
  obtain ⟨h1, h2, h3⟩ := hp
  obtain ⟨a1, a2, a3, _⟩ := ha
  refine ⟨{ id := some id, tag := some tag, fmt := fmt, settled := mergeSettled i.settled f.settled,
            buf := i.buf ++ [f.payload] }, ?_, ⟨rfl, rfl, rfl⟩, rfl⟩
  simp [merge, h1, h2, h3, orAssign_same id f.id a1, orAssign_same tag f.tag a2, orAssign_fmt fmt f.fmt a3,
    bind, Option.bind, pure]

/-- continuation frames (all with `more`) produce nothing and accumulate the payload -/
theorem run_middle (id : Nat) (tag : Bytes) (fmt : Option Nat) : ∀ (fs : List Frame) (i : Inc),
    Partial id tag fmt i → (∀ f ∈ fs, Agrees id tag fmt f ∧ f.more = true) →
    ∃ i', (run (some i) fs).1 = some i' ∧ Partial id tag fmt i' ∧
      i'.buf = i.buf ++ fs.map (·.payload) ∧ (run (some i) fs).2 = fs.map (fun _ => Out.nothing)
  | [], i, hp, _ => ⟨i, rfl, hp, by simp, rfl⟩
  | f :: fs, i, hp, hall => by
    obtain ⟨ha, hm⟩ := hall f (by simp)
    obtain ⟨i1, hm1, hp1, hb1⟩ := merge_agrees id tag fmt i f hp ha
    obtain ⟨i2, r1, r2, r3, r4⟩ := run_middle id tag fmt fs i1 hp1 (fun g hg => hall g (by simp [hg]))
    have hstep : step (some i) f = (some i1, .nothing) := by
      simp [step, source_abort_first, ha.2.2.2, hm, hm1]
    refine ⟨i2, ?_, r2, ?_, ?_⟩
    · simp [run, hstep, r1]
    · rw [r3, hb1]; simp
    · simp [run, hstep, r4]

/-- **reasm_once.** However a payload `p` is cut into `n ≥ 1` pieces (empty
    pieces allowed), with continuation frames repeating or omitting delivery-id,
    delivery-tag and message-format consistently: nothing is handed to the
    application before the last frame, exactly one delivery at the last frame,
    carrying the first frame's id / tag / format and exactly `p`. -/
theorem reasm_once (id : Nat) (tag : Bytes) (fmt : Option Nat) (first : Frame) (mids : List Frame)
    (last : Frame)
    (hf : first.id = some id ∧ first.tag = some tag ∧ first.fmt = fmt ∧ first.more = true ∧
          first.aborted = false)
    (hm : ∀ f ∈ mids, Agrees id tag fmt f ∧ f.more = true)
    (hl : Agrees id tag fmt last ∧ last.more = false) :
    ∃ settled, run none (first :: mids ++ [last]) =
      (none, Out.nothing :: mids.map (fun _ => Out.nothing) ++
        [.delivery id tag fmt settled (first.payload ++ (mids.map (·.payload)).flatten ++ last.payload)]) := by
  obtain ⟨f1, f2, f3, f4, f5⟩ := hf
  let i0 : Inc := { id := first.id, tag := first.tag, fmt := first.fmt, settled := first.settled,
                    buf := [first.payload] }
  have hp0 : Partial id tag fmt i0 := ⟨f1, f2, f3⟩
  have hstep0 : step none first = (some i0, .nothing) := by simp [step, source_abort_first, f4, f5, i0]
  obtain ⟨i1, r1, r2, r3, r4⟩ := run_middle id tag fmt mids i0 hp0 hm
  obtain ⟨i2, hm2, hp2, hb2⟩ := merge_agrees id tag fmt i1 last r2 hl.1
  have hlast : step (some i1) last =
      (none, .delivery id tag fmt (i2.settled.getD false) i2.buf.flatten) := by
    simp [step, source_abort_first, hl.1.2.2.2, hl.2, hm2, deliver, hp2.1, hp2.2.1, hp2.2.2]
  refine ⟨i2.settled.getD false, ?_⟩
  have hrun : ∀ (fs : List Frame) (st : Option Inc) (g : Frame),
      run st (fs ++ [g]) = ((step (run st fs).1 g).1, (run st fs).2 ++ [(step (run st fs).1 g).2]) := by
    intro fs
    induction fs with
    | nil => intro st g; simp [run]
    | cons x xs ih => intro st g; simp [run, ih]
  have : run none (first :: mids ++ [last]) =
      ((step (run (some i0) mids).1 last).1, Out.nothing :: ((run (some i0) mids).2 ++
        [(step (run (some i0) mids).1 last).2])) := by
    simp only [List.cons_append, run, hstep0, hrun]
  rw [this, r1, r4, hlast, hb2, r3]
  simp [i0, List.flatten_append]

/-- **single_frame.** A delivery that arrives in one frame is handed over as it is. -/
theorem single_frame (id : Nat) (tag : Bytes) (f : Frame) (h1 : f.id = some id) (h2 : f.tag = some tag)
    (hm : f.more = false) (ha : f.aborted = false) :
    step none f = (none, .delivery id tag f.fmt (f.settled.getD false) f.payload) := by
  simp [step, source_abort_first, hm, ha, deliver, h1, h2]

/-- **abort_clean.** An aborted delivery yields nothing and leaves no state behind:
    the next delivery is reassembled as if it were alone. -/
theorem abort_clean (st : Option Inc) (f : Frame) (h : f.aborted = true) (fs : List Frame) :
    run st (f :: fs) = ((run none fs).1, Out.nothing :: (run none fs).2) := by
  simp [run, step, source_abort_first, h]

/-- **contradiction_is_error.** A continuation frame whose delivery-id contradicts
    the first frame's never produces a (spliced) delivery. -/
theorem contradiction_is_error (i : Inc) (f : Frame) (id id' : Nat) (hi : i.id = some id)
    (hf : f.id = some id') (hne : id ≠ id') (ha : f.aborted = false) :
    (step (some i) f).2 = .inconsistent := by
  have : merge i f = none := by simp [merge, hi, hf, orAssign, hne, bind, Option.bind]
  by_cases hm : f.more = true <;> simp [step, source_abort_first, ha, hm, this]

/-- the other order is wrong: an abort frame that carries `more` (the flag means nothing on it) would be
    appended to the delivery under construction, and the next delivery would be merged into the aborted
    one (what a seeded reordering does) -/
theorem abort_after_more_disturbs_the_next :
    (let stepBad : Option Inc → Frame → Option Inc × Out := fun st f =>
        if f.more then (match st with
          | some i => (match merge i f with | some i' => (some i', .nothing) | none => (some i, .inconsistent))
          | none => (some { id := f.id, tag := f.tag, fmt := f.fmt, settled := f.settled, buf := [f.payload] }, .nothing))
        else if f.aborted then (none, .nothing) else (none, .nothing)
     (stepBad (some { id := some 1, tag := some [1], fmt := some 0, settled := none, buf := [[7]] })
        ⟨some 1, none, none, none, true, true, [9, 9]⟩).1.isSome) = true := by decide

/-- generated obligation: in `on_incomplete_transfer` the frame is checked before its payload is kept -/
theorem source_checked_before_kept : checkedBeforeKept = true := by decide
theorem source_append_only_pushes : appendOnlyPushes = true := by decide

/-- **refused_frame_leaves_nothing (C10).** A continuation frame whose delivery-id, tag or format
    contradicts the delivery in progress is reported as an error and leaves that delivery exactly as it
    was: whatever frames follow, the message that comes out at the last one is made of the payloads
    of the frames that were accepted, the refused frame's bytes are not among them. -/
theorem refused_frame_leaves_nothing (i : Inc) (f : Frame) (hm : f.more = true) (ha : f.aborted = false)
    (hc : merge i f = none) : step (some i) f = (some i, .inconsistent) := by
  simp [step, source_abort_first, source_checked_before_kept, ha, hm, hc]

/-- with the other order (what a seeded reordering does) the refused frame's payload stays in the buffer
    and the last frame delivers a spliced message -/
example : (let i : Inc := { id := some 1, tag := some [1], fmt := some 0, settled := none, buf := [[7]] }
    ({ i with buf := i.buf ++ [[9, 9]] } : Inc).buf.flatten) = [7, 9, 9] := by decide

/-! ### the `resume` flag -/

theorem source_resume_shape : resumeShape = true := by decide

/-- every tag in sight is the delivery's or absent -/
def TagInv (tag : Bytes) (st : Option Inc) : Prop := ∀ i, st = some i → i.tag = none ∨ i.tag = some tag

theorem stepR_eq_step (tag : Bytes) (st : Option Inc) (f : Frame) (r : Bool)
    (hs : TagInv tag st) (hf : f.tag = none ∨ f.tag = some tag) : stepR st f r = step st f := by
  unfold stepR
  split
  · rcases hf with h | h
    · simp [h]
    · cases st with
      | none => simp
      | some i =>
        rcases hs i rfl with h' | h' <;> simp [h, h']
  · rfl

theorem orAssign_tag (tag : Bytes) (a b : Option Bytes) (o : Option Bytes)
    (ha : a = none ∨ a = some tag) (hb : b = none ∨ b = some tag) (h : orAssign a b = some o) :
    o = none ∨ o = some tag := by
  rcases ha with rfl | rfl <;> rcases hb with rfl | rfl <;> simp [orAssign] at h <;> simp [← h]

theorem merge_tag (tag : Bytes) (i i' : Inc) (f : Frame) (hi : i.tag = none ∨ i.tag = some tag)
    (hf : f.tag = none ∨ f.tag = some tag) (h : merge i f = some i') : i'.tag = none ∨ i'.tag = some tag := by
  unfold merge at h
  cases h1 : orAssign i.id f.id with
  | none => simp [h1, bind, Option.bind] at h
  | some id =>
    cases h2 : orAssign i.tag f.tag with
    | none => simp [h1, h2, bind, Option.bind] at h
    | some tg =>
      cases h3 : orAssign i.fmt f.fmt with
      | none => simp [h1, h2, h3, bind, Option.bind] at h
      | some fm =>
        simp [h1, h2, h3, bind, Option.bind, pure] at h
        rw [← h]
        exact orAssign_tag tag _ _ _ hi hf h2

theorem step_tagInv (tag : Bytes) (st : Option Inc) (f : Frame) (hs : TagInv tag st)
    (hf : f.tag = none ∨ f.tag = some tag) : TagInv tag (step st f).1 := by
  intro j hj
  by_cases ha : f.aborted = true
  · simp [step, source_abort_first, ha] at hj
  · by_cases hm : f.more = true
    · cases st with
      | none => simp [step, source_abort_first, ha, hm] at hj; rw [← hj]; exact hf
      | some i =>
        cases hmg : merge i f with
        | none =>
          simp [step, source_abort_first, source_checked_before_kept, ha, hm, hmg] at hj
          rw [← hj]; exact hs i rfl
        | some i' =>
          simp [step, source_abort_first, ha, hm, hmg] at hj
          rw [← hj]; exact merge_tag tag i i' f (hs i rfl) hf hmg
    · cases st with
      | none => simp [step, source_abort_first, ha, hm] at hj
      | some i => cases hmg : merge i f <;> simp [step, source_abort_first, ha, hm, hmg] at hj

/-- **resume_flag_immaterial (C10).** On the frames of one delivery — the delivery-tag repeated or omitted —
    whichever of them carry the `resume` flag (a delivery transferred again after the link was resumed), what
    the application is handed is what it is handed without the flag: nothing before the last frame, then the
    whole message once (`reasm_once`). -/
theorem resume_flag_immaterial (tag : Bytes) : ∀ (fs : List (Frame × Bool)) (st : Option Inc),
    TagInv tag st → (∀ p ∈ fs, p.1.tag = none ∨ p.1.tag = some tag) →
    runR st fs = run st (fs.map (·.1))
  | [], _, _, _ => rfl
  | (f, r) :: fs, st, hs, hf => by
    have h1 := stepR_eq_step tag st f r hs (hf (f, r) (by simp))
    have h2 := resume_flag_immaterial tag fs (step st f).1 (step_tagInv tag st f hs (hf (f, r) (by simp)))
      (fun p hp => hf p (by simp [hp]))
    simp [runR, run, h1, h2]

/-- `reasm_once` for a delivery that is transferred again with `resume` on any of its frames -/
theorem reasm_once_resumed (id : Nat) (tag : Bytes) (fmt : Option Nat) (first : Frame) (mids : List Frame)
    (last : Frame) (flags : List Bool)
    (hf : first.id = some id ∧ first.tag = some tag ∧ first.fmt = fmt ∧ first.more = true ∧
          first.aborted = false)
    (hm : ∀ f ∈ mids, Agrees id tag fmt f ∧ f.more = true)
    (hl : Agrees id tag fmt last ∧ last.more = false)
    (hlen : flags.length = (first :: mids ++ [last]).length) :
    ∃ settled, runR none ((first :: mids ++ [last]).zip flags) =
      (none, Out.nothing :: mids.map (fun _ => Out.nothing) ++
        [.delivery id tag fmt settled (first.payload ++ (mids.map (·.payload)).flatten ++ last.payload)]) := by
  obtain ⟨settled, h⟩ := reasm_once id tag fmt first mids last hf hm hl
  refine ⟨settled, ?_⟩
  have hz : ((first :: mids ++ [last]).zip flags).map (·.1) = first :: mids ++ [last] := by
    rw [List.map_fst_zip]; omega
  rw [resume_flag_immaterial tag _ none (fun i hi => by cases hi), hz, h]
  intro p hp
  have hp1 : p.1 ∈ first :: mids ++ [last] := by
    have := List.mem_map_of_mem (f := Prod.fst) hp
    rwa [hz] at this
  simp only [List.cons_append, List.mem_cons, List.mem_append, List.mem_nil_iff, or_false] at hp1
  rcases hp1 with h1 | h1 | h1
  · rw [h1]; exact Or.inr hf.2.1
  · exact (hm _ h1).1.2.1
  · rw [h1]; exact hl.1.2.1

/-- what the other arm does: a last frame with `resume` that names another delivery-tag than the delivery in
    progress is a delivery of its own, and the delivery in progress stays exactly as it was -/
theorem resumed_other_delivery (i : Inc) (f : Frame) (t u : Bytes) (hi : i.tag = some t) (hf : f.tag = some u)
    (hne : u ≠ t) (hm : f.more = false) (ha : f.aborted = false) :
    stepR (some i) f true = (some i, deliver f.id f.tag f.fmt f.settled f.payload) := by
  simp [stepR, source_resume_shape, hm, ha, hi, hf, hne]

/-- the shape a seeded change gave that function (a delivery of its own whenever the tags are not both known
    and equal) hands the last frame of a resumed delivery over alone when it leaves the tag out -/
example : (let i : Inc := { id := some 1, tag := some [1], fmt := some 0, settled := none, buf := [[7]] }
    let f : Frame := ⟨none, none, none, none, false, false, [9]⟩
    (stepR (some i) f true).2 = .delivery 1 [1] (some 0) false [7, 9] ∧
    deliver f.id f.tag f.fmt f.settled f.payload = .missingIdOrTag) := by decide

/-! ### a delivery posted under a transaction -/

/-- **committed_post_is_the_post_as_written (C10, C18).** `key` gives back the transfer a routed frame stands
    for. What the commit replays to link `h` out of transaction `id` (its work, in order) goes through the
    link's reassembly exactly as the frames of the post would have, had the peer written them to the link
    directly — so `reasm_once`, `abort_clean` and `refused_frame_leaves_nothing` hold for posted deliveries as
    they do for plain ones. -/
theorem committed_post_is_the_post_as_written (h id tg : Nat) (key : Nat → Frame)
    (fs : List Amqp.TxnRoute.TFrame) (s : Amqp.TxnRoute.St)
    (ht : s.table h = some (id, some tg))
    (hall : ∀ f ∈ fs, f.handle = h → Amqp.TxnRoute.Continues h id tg f ∧ f.more = true ∧ f.aborted = false)
    (st : Option Inc) :
    run st ((((Amqp.TxnRoute.run s fs).1.work id).filter (·.handle == h)).map (fun g => key g.key)) =
    run st ((((s.work id).filter (·.handle == h)) ++ fs.filter (·.handle == h)).map (fun g => key g.key)) := by
  rw [Amqp.TxnRoute.post_work_in_order h id tg fs s ht hall]

/-! ### non-vacuity -/
example : (run none [⟨some 7, some [1], some 0, none, true, false, [1, 2]⟩, ⟨some 8, none, none, none, true, false, [66]⟩,
    ⟨some 7, none, none, none, false, false, [3]⟩]).2 =
    [.nothing, .inconsistent, .delivery 7 [1] (some 0) false [1, 2, 3]] := by decide

example : (run none [⟨some 7, some [1], some 0, none, true, false, [1, 2]⟩,
    ⟨none, none, none, none, true, false, []⟩, ⟨some 7, none, none, none, false, false, [3]⟩]).2 =
    [.nothing, .nothing, .delivery 7 [1] (some 0) false [1, 2, 3]] := by decide

end Amqp.Reasm
