/-
  C12 — connection lifecycle.  Theorems about `Amqp.Conn` (the engine model) on top of the
  transition tables generated from connection/mod.rs and connection/engine.rs.
  They hold for every sequence of events (peer frames legal or not, local requests,
  heartbeats, end of stream), of any length.
-/
import Amqp.Conn
import Amqp.CloseFlush

namespace Amqp.Conn
open Amqp.Gen.Fsm

def Out.isClose : Out → Bool
  | .close _ => true
  | _ => false

def Out.onWire : Out → Bool
  | .toSession _ => false
  | _ => true

/-- what is written to the transport -/
def wire (os : List Out) : List Out := os.filter Out.onWire

/-- connection states the client reaches (`ConnectionEngine::open` does the header exchange
    before the open, so the pipelined states do not occur) -/
def RS : CState → Bool
  | .openSent | .opened | .closePipe | .closeSent | .discarding | .ended => true
  | _ => false

/-- the close frame has been written (or the engine has stopped): nothing more may be written -/
def Quiet (s : St) : Prop :=
  s.phase = .stopped ∨ s.cs = .closePipe ∨ s.cs = .closeSent ∨ s.cs = .discarding ∨ s.cs = .ended

theorem wire_nil : wire [] = [] := rfl
theorem wire_append (a b : List Out) : wire (a ++ b) = wire a ++ wire b := by simp [wire]

@[simp] theorem release_cs (s : St) (oc : Nat) : (release s oc).cs = s.cs := by unfold release; split <;> rfl
@[simp] theorem release_phase (s : St) (oc : Nat) : (release s oc).phase = s.phase := by unfold release; split <;> rfl
@[simp] theorem release_sessClosed (s : St) (oc : Nat) : (release s oc).sessClosed = s.sessClosed := by unfold release; split <;> rfl
@[simp] theorem release_dead (s : St) (oc : Nat) : (release s oc).dead = s.dead := by unfold release; split <;> rfl
@[simp] theorem release_res (s : St) (oc : Nat) : (release s oc).res = s.res := by unfold release; split <;> rfl

macro "conn_simp" : tactic => `(tactic|
  simp [stepRunning, stepWait, onIncoming, onError, closeConnection, settle, overwrite, refusedClose, Quiet, RS, wire,
      Conn.on_incoming_drops, Conn.on_heartbeat_arm, Conn.on_control_close_ignored, Conn.close_connection_arm,
      Conn.on_outgoing_session_frames_arm, Conn.allocate_session, Conn.send_close, Conn.send_close_checks_first,
      Conn.on_incoming_close, Conn.on_incoming_open, Conn.on_incoming_begin, Conn.on_incoming_end, Conn.forward_to_session_arm,
      eofIsError, Conn.on_eof_arm, Conn.on_eof_arm_is_err,
      PFrame.isClose, Out.onWire, Out.isClose, Err.res])

macro "conn_fin" "[" ts:Lean.Parser.Tactic.simpLemma,* "]" : tactic => `(tactic|
  ((try conn_simp) <;> (try simp [List.filter_cons, List.filter_nil, Out.onWire, Out.isClose, $ts,*]) <;> (first | done | decide)))

/-- in the closing states -/
def InQ (c : CState) : Prop := c = .closePipe ∨ c = .closeSent ∨ c = .discarding ∨ c = .ended

set_option maxHeartbeats 1000000 in
theorem quiet_stepRunning (s : St) (e : Event) (hp : s.phase = .running)
    (hq : s.cs = .closePipe ∨ s.cs = .closeSent ∨ s.cs = .discarding ∨ s.cs = .ended) :
    wire (stepRunning s e).2 = [] ∧ Quiet (stepRunning s e).1 ∧ RS (stepRunning s e).1.cs = true := by
  obtain ⟨cs, phase, outCh, freeCh, endSent, endRecv, inCh, res, sessClosed, dead⟩ := s
  simp only at hp hq
  subst hp
  cases e with
  | peer f =>
    cases f with
    | close we => cases we <;> rcases hq with rfl | rfl | rfl | rfl <;> conn_simp
    | open_ => rcases hq with rfl | rfl | rfl | rfl <;> conn_simp
    | begin ch rc => rcases hq with rfl | rfl | rfl | rfl <;> conn_simp
    | session ch => rcases hq with rfl | rfl | rfl | rfl <;> conn_simp
    | end_ ch => rcases hq with rfl | rfl | rfl | rfl <;> conn_simp
    | empty => rcases hq with rfl | rfl | rfl | rfl <;> conn_simp
  | eof => rcases hq with rfl | rfl | rfl | rfl <;> conn_simp
  | ctlClose we => cases we <;> rcases hq with rfl | rfl | rfl | rfl <;> conn_simp
  | ctlBegin => cases sessClosed <;> rcases hq with rfl | rfl | rfl | rfl <;> conn_simp
  | sessFrame ch ie => cases sessClosed <;> cases ie <;> rcases hq with rfl | rfl | rfl | rfl <;> conn_simp
  | heartbeat => rcases hq with rfl | rfl | rfl | rfl <;> conn_simp
set_option maxHeartbeats 2000000 in
theorem quiet_stepWait (s : St) (d : Bool) (e : Event) (hq : InQ s.cs) :
    wire (stepWait s d e).2 = [] ∧ (InQ (stepWait s d e).1.cs ∨ (stepWait s d e).1.phase = .stopped) := by
  obtain ⟨cs, phase, outCh, freeCh, endSent, endRecv, inCh, res, sessClosed, dead⟩ := s
  simp only [InQ] at hq ⊢
  cases e with
  | peer f =>
    cases f with
    | close we => cases we <;> rcases hq with rfl | rfl | rfl | rfl <;> conn_simp
    | open_ => cases d <;> rcases hq with rfl | rfl | rfl | rfl <;> conn_simp
    | begin ch rc => cases d <;> rcases hq with rfl | rfl | rfl | rfl <;> conn_simp
    | session ch => cases d <;> rcases hq with rfl | rfl | rfl | rfl <;> conn_simp
    | end_ ch => cases d <;> rcases hq with rfl | rfl | rfl | rfl <;> conn_simp
    | empty => cases d <;> rcases hq with rfl | rfl | rfl | rfl <;> conn_simp
  | eof => rcases hq with rfl | rfl | rfl | rfl <;> conn_simp
  | ctlClose we => rcases hq with rfl | rfl | rfl | rfl <;> conn_simp
  | ctlBegin => rcases hq with rfl | rfl | rfl | rfl <;> conn_simp
  | sessFrame ch ie => rcases hq with rfl | rfl | rfl | rfl <;> conn_simp
  | heartbeat => rcases hq with rfl | rfl | rfl | rfl <;> conn_simp

set_option maxHeartbeats 2000000 in
/-- from the opened state every event writes at most one frame; if that frame is a close the
    connection is in a closing state (or has stopped) afterwards -/
theorem active_stepRunning (s : St) (e : Event) (hp : s.phase = .running) (hc : s.cs = .opened) :
    (wire (stepRunning s e).2).length ≤ 1 ∧
    (∀ o ∈ wire (stepRunning s e).2, o ≠ .open_ ∧ o ≠ .header) ∧
    (∀ o ∈ wire (stepRunning s e).2, o.isClose = true →
        InQ (stepRunning s e).1.cs ∨ (stepRunning s e).1.phase = .stopped) ∧
    ((stepRunning s e).1.phase = .stopped ∨ InQ (stepRunning s e).1.cs ∨
      ((stepRunning s e).1.cs = .opened ∧ (stepRunning s e).1.phase = .running)) := by
  obtain ⟨cs, phase, outCh, freeCh, endSent, endRecv, inCh, res, sessClosed, dead⟩ := s
  simp only at hp hc
  subst hp hc
  simp only [InQ]
  cases e with
  | peer f =>
    cases f with
    | close we => cases we <;> conn_fin []
    | open_ => conn_fin []
    | begin ch rc =>
      cases rc with
      | none => conn_fin []
      | some oc => by_cases h : oc ∈ outCh <;> conn_fin [h]
    | session ch => by_cases h : (inCh.any fun p => p.fst == ch) = true <;> conn_fin [h]
    | end_ ch =>
      cases h : inCh.find? (fun p => p.1 == ch) <;> conn_fin [h]
    | empty => conn_fin []
  | eof => conn_fin []
  | ctlClose we => cases we <;> conn_fin []
  | ctlBegin => cases sessClosed <;> conn_fin []
  | sessFrame ch ie => cases sessClosed <;> cases ie <;> conn_fin []
  | heartbeat => conn_fin []

/-! ## composition -/

/-- the close frame has been written or the engine has stopped -/
def Closing (s : St) : Prop := s.phase = .stopped ∨ InQ s.cs

/-- states the engine is in between events once the connection is open -/
def Inv (s : St) : Prop := Closing s ∨ (s.cs = .opened ∧ s.phase = .running)

theorem closing_step1 (s : St) (e : Event) (h : Closing s) :
    wire (step1 s e).2 = [] ∧ Closing (step1 s e).1 := by
  unfold step1
  cases hp : s.phase with
  | stopped => simp [hp, wire, Closing]
  | running =>
    rcases h with h | h
    · rw [hp] at h; cases h
    · simp only [hp]
      obtain ⟨a, b, _⟩ := quiet_stepRunning s e hp h
      refine ⟨a, ?_⟩
      rcases b with b | b | b | b | b
      · exact Or.inl b
      · exact Or.inr (Or.inl b)
      · exact Or.inr (Or.inr (Or.inl b))
      · exact Or.inr (Or.inr (Or.inr (Or.inl b)))
      · exact Or.inr (Or.inr (Or.inr (Or.inr b)))
  | waitClose d =>
    rcases h with h | h
    · rw [hp] at h; cases h
    · simp only [hp]
      obtain ⟨a, b⟩ := quiet_stepWait s d e h
      exact ⟨a, b.symm⟩

/-- **nothing after the close** (one event): in a closing state no event — frames from the
    peer, requests from the application, heartbeats, the end of the stream — makes the
    endpoint write anything, and the state stays a closing one -/
theorem closing_step (s : St) (e : Event) (h : Closing s) :
    wire (step s e).2 = [] ∧ Closing (step s e).1 := by
  unfold step
  split
  · exact ⟨rfl, h⟩
  · have h0 : Closing (markDead s e) := by
      unfold markDead; split <;> exact h
    obtain ⟨a, b⟩ := closing_step1 _ e h0
    generalize step1 (markDead s e) e = r at a b
    unfold finishWait
    cases hp : r.1.phase with
    | stopped => exact ⟨a, b⟩
    | running => exact ⟨a, b⟩
    | waitClose d =>
      simp only
      split
      · have hq : InQ r.1.cs := by
          rcases b with b | b
          · rw [hp] at b; cases b
          · exact b
        obtain ⟨a2, b2⟩ := quiet_stepWait r.1 d .eof hq
        simp only [wire_append, a, a2, List.append_nil]
        exact ⟨trivial, b2.symm⟩
      · exact ⟨a, b⟩

/-- one event from the opened state -/
theorem opened_step (s : St) (e : Event) (hc : s.cs = .opened) (hp : s.phase = .running) :
    (wire (step s e).2).length ≤ 1 ∧
    (∀ o ∈ wire (step s e).2, o ≠ .open_ ∧ o ≠ .header) ∧
    (∀ o ∈ wire (step s e).2, o.isClose = true → Closing (step s e).1) ∧
    Inv (step s e).1 := by
  unfold step
  split
  · simp [wire, Inv, hc, hp]
  · have hc0 : (markDead s e).cs = .opened := by unfold markDead; split <;> exact hc
    have hp0 : (markDead s e).phase = .running := by unfold markDead; split <;> exact hp
    have hs1 : step1 (markDead s e) e = stepRunning (markDead s e) e := by
      unfold step1; rw [hp0]
    rw [hs1]
    obtain ⟨a, n, b, c⟩ := active_stepRunning _ e hp0 hc0
    generalize stepRunning (markDead s e) e = r at a n b c
    have toInv : (r.1.phase = .stopped ∨ InQ r.1.cs ∨ (r.1.cs = .opened ∧ r.1.phase = .running)) → Inv r.1 := by
      intro h
      rcases h with h | h | h
      · exact Or.inl (Or.inl h)
      · exact Or.inl (Or.inr h)
      · exact Or.inr h
    unfold finishWait
    cases hph : r.1.phase with
    | stopped => exact ⟨a, n, fun o ho hcl => Or.inl hph, toInv c⟩
    | running =>
      refine ⟨a, n, fun o ho hcl => ?_, toInv c⟩
      rcases b o ho hcl with b | b
      · exact Or.inr b
      · exact Or.inl b
    | waitClose d =>
      simp only
      have hq : InQ r.1.cs := by
        rcases c with c | c | c
        · rw [hph] at c; cases c
        · exact c
        · rw [hph] at c; cases c.2
      split
      · obtain ⟨a2, b2⟩ := quiet_stepWait r.1 d .eof hq
        simp only [wire_append, a2, List.append_nil]
        exact ⟨a, n, fun o ho hcl => b2.symm, Or.inl b2.symm⟩
      · exact ⟨a, n, fun o ho hcl => Or.inr hq, Or.inl (Or.inr hq)⟩

/-- a close frame, if any, is the last thing written -/
def CloseLast : List Out → Prop
  | [] => True
  | o :: os => (o.isClose = true → os = []) ∧ CloseLast os

theorem run_closing (evs : List Event) : ∀ (s : St), Closing s → wire (run s evs).2 = [] := by
  induction evs with
  | nil => intro s _; rfl
  | cons e es ih =>
    intro s h
    obtain ⟨a, b⟩ := closing_step s e h
    simp only [run, wire_append, a, List.nil_append]
    exact ih _ b

/-- **C12 — at most one close, and nothing after it.** From the opened connection, for every
    sequence of events whatsoever, what the endpoint writes contains no header and no open
    again, and a close frame — if one is written at all — is the last frame written (hence
    there is at most one). -/
theorem close_is_last (evs : List Event) : ∀ (s : St), Inv s →
    CloseLast (wire (run s evs).2) ∧ ∀ o ∈ wire (run s evs).2, o ≠ .open_ ∧ o ≠ .header := by
  induction evs with
  | nil => intro s _; simp [run, wire, CloseLast]
  | cons e es ih =>
    intro s h
    simp only [run, wire_append]
    rcases h with h | ⟨hc, hp⟩
    · obtain ⟨a, b⟩ := closing_step s e h
      rw [a, List.nil_append]
      exact ih _ (Or.inl b)
    · obtain ⟨a, n, b, c⟩ := opened_step s e hc hp
      obtain ⟨ih1, ih2⟩ := ih _ c
      generalize wire (step s e).2 = w at a n b
      match w, a with
      | [], _ => simpa using ⟨ih1, ih2⟩
      | [o], _ =>
        refine ⟨?_, ?_⟩
        · simp only [List.singleton_append, CloseLast]
          refine ⟨fun hcl => run_closing es _ (b o (by simp) hcl), ih1⟩
        · intro x hx
          simp only [List.singleton_append, List.mem_cons] at hx
          rcases hx with rfl | hx
          · exact n _ (by simp)
          · exact ih2 x hx

theorem closeLast_count : ∀ (os : List Out), CloseLast os → (os.filter Out.isClose).length ≤ 1 := by
  intro os
  induction os with
  | nil => intro _; simp
  | cons o os ih =>
    intro h
    obtain ⟨h1, h2⟩ := h
    by_cases hc : o.isClose = true
    · rw [h1 hc]; simp [hc]
    · have := ih h2
      simp [List.filter_cons, hc]; exact this

/-- at most one close frame over the whole life of the connection -/
theorem at_most_one_close (evs : List Event) (s : St) (h : Inv s) :
    ((wire (run s evs).2).filter Out.isClose).length ≤ 1 :=
  closeLast_count _ (close_is_last evs s h).1

/-- **the open phase**: the header is written first, then the open, whatever the peer answers;
    afterwards the engine is in a state the theorems above start from -/
theorem open_phase (first : Option PFrame) :
    (∃ rest, (openWith first).2.1 = .header :: .open_ :: rest ∧ CloseLast rest ∧ ∀ o ∈ rest, o ≠ .open_ ∧ o ≠ .header) ∧
    Inv (openWith first).1 := by
  have key : ∀ (rest : List Out) (s : St) (ok : Bool), openWith first = (s, .header :: .open_ :: rest, ok) →
      CloseLast rest → (∀ o ∈ rest, o ≠ .open_ ∧ o ≠ .header) → Inv s →
      (∃ rest, (openWith first).2.1 = .header :: .open_ :: rest ∧ CloseLast rest ∧ ∀ o ∈ rest, o ≠ .open_ ∧ o ≠ .header) ∧
      Inv (openWith first).1 := by
    intro rest s ok h1 h2 h3 h4
    rw [h1]; exact ⟨⟨rest, rfl, h2, h3⟩, h4⟩
  cases first with
  | none => exact key [.close false] _ _ rfl (by simp [CloseLast]) (by simp) (by simp [Inv, Closing, InQ])
  | some f =>
    cases f with
    | close we =>
      cases we
      · exact key [.close false] _ _ rfl (by simp [CloseLast]) (by simp) (by simp [Inv, Closing, InQ])
      · exact key [.close false] _ _ rfl (by simp [CloseLast]) (by simp) (by simp [Inv, Closing, InQ])
    | open_ => exact key [] _ _ rfl (by simp [CloseLast]) (by simp) (Or.inr ⟨rfl, rfl⟩)
    | begin ch rc => exact key [.close false] _ _ rfl (by simp [CloseLast]) (by simp) (by simp [Inv, Closing, InQ])
    | session ch => exact key [.close false] _ _ rfl (by simp [CloseLast]) (by simp) (by simp [Inv, Closing, InQ])
    | end_ ch => exact key [.close false] _ _ rfl (by simp [CloseLast]) (by simp) (by simp [Inv, Closing, InQ])
    | empty => exact key [.close false] _ _ rfl (by simp [CloseLast]) (by simp) (by simp [Inv, Closing, InQ])


/-! ## the individual clauses -/

/-- **a close from the peer is answered with a close** (no error attached), the engine stops and
    the handle learns that — and why — the peer closed -/
theorem peer_close_answered (s : St) (we : Bool) (hc : s.cs = .opened) (hp : s.phase = .running) (hd : s.dead = false) :
    wire (step s (.peer (.close we))).2 = [.close false] ∧
    (step s (.peer (.close we))).1.phase = .stopped ∧
    (step s (.peer (.close we))).1.res = some (if we then .remoteClosedWithError else .remoteClosed) := by
  obtain ⟨cs, phase, outCh, freeCh, endSent, endRecv, inCh, res, sessClosed, dead⟩ := s
  simp only at hc hp hd
  subst hc hp hd
  cases we <;>
    simp [step, step1, markDead, finishWait, Event.isPeer, stepRunning, onIncoming, onError, closeConnection, overwrite, wire,
      Conn.on_incoming_drops, Conn.on_incoming_close, Conn.send_close, Conn.close_connection_arm, PFrame.isClose, Out.onWire, Err.res]

/-- **after closing with an error everything but the peer's close is ignored**: no output, no
    change of state, nothing handed to a session -/
theorem discarding_ignores (s : St) (f : PFrame) (hc : s.cs = .discarding) (hp : s.phase = .running)
    (hf : f.isClose = false) (hd : s.dead = false) :
    step s (.peer f) = (s, []) := by
  obtain ⟨cs, phase, outCh, freeCh, endSent, endRecv, inCh, res, sessClosed, dead⟩ := s
  simp only at hc hp hd
  subst hc hp hd
  cases f <;> simp_all [step, step1, markDead, finishWait, Event.isPeer, stepRunning, onIncoming, settle,
    Conn.on_incoming_drops, PFrame.isClose]

/-- the same while the engine waits for the peer's close inside `close_connection` -/
theorem discarding_wait_ignores (s : St) (f : PFrame) (hp : s.phase = .waitClose true) (hf : f.isClose = false)
    (hd : s.dead = false) :
    step s (.peer f) = (s, []) := by
  obtain ⟨cs, phase, outCh, freeCh, endSent, endRecv, inCh, res, sessClosed, dead⟩ := s
  simp only at hp hd
  subst hp hd
  cases f <;> simp_all [step, step1, markDead, finishWait, Event.isPeer, stepWait, PFrame.isClose]

/-- frames that are illegal on an opened connection -/
def Illegal (s : St) : PFrame → Prop
  | .open_ => True
  | .begin _ none => True
  | .begin _ (some oc) => oc ∉ s.outCh
  | .session ch => (s.inCh.any fun p => p.1 == ch) = false
  | .end_ ch => (s.inCh.any fun p => p.1 == ch) = false
  | _ => False

/-- **a frame that is illegal in the opened state closes the connection with an error instead
    of being acted on**: a close carrying an error is the only thing written, nothing reaches a
    session, and the connection goes on to discard until the peer's close -/
theorem illegal_frame_refused (s : St) (f : PFrame) (hc : s.cs = .opened) (hp : s.phase = .running)
    (hd : s.dead = false) (hi : Illegal s f) :
    (step s (.peer f)).2 = [.close true] ∧ (step s (.peer f)).1.cs = .discarding ∧
    (step s (.peer f)).1.phase = .waitClose false := by
  obtain ⟨cs, phase, outCh, freeCh, endSent, endRecv, inCh, res, sessClosed, dead⟩ := s
  simp only at hc hp hd
  subst hc hp hd
  cases f with
  | open_ =>
    simp [step, step1, markDead, finishWait, Event.isPeer, stepRunning, onIncoming, onError, closeConnection, overwrite,
      Conn.on_incoming_drops, Conn.on_incoming_open, Conn.send_close, Conn.close_connection_arm, PFrame.isClose, Err.res]
  | begin ch rc =>
    cases rc with
    | none =>
      simp [step, step1, markDead, finishWait, Event.isPeer, stepRunning, onIncoming, onError, closeConnection, overwrite,
        Conn.on_incoming_drops, Conn.on_incoming_begin, Conn.send_close, Conn.close_connection_arm, PFrame.isClose, Err.res]
    | some oc =>
      simp only [Illegal] at hi
      simp [step, step1, markDead, finishWait, Event.isPeer, stepRunning, onIncoming, onError, closeConnection, overwrite,
        Conn.on_incoming_drops, Conn.on_incoming_begin, Conn.send_close, Conn.close_connection_arm, PFrame.isClose, Err.res, hi]
  | session ch =>
    simp only [Illegal] at hi
    simp [step, step1, markDead, finishWait, Event.isPeer, stepRunning, onIncoming, onError, closeConnection, overwrite,
      Conn.on_incoming_drops, Conn.forward_to_session_arm, Conn.send_close, Conn.close_connection_arm, PFrame.isClose, Err.res, hi]
  | end_ ch =>
    simp only [Illegal] at hi
    have hfind : inCh.find? (fun p => p.1 == ch) = none := by
      rw [List.find?_eq_none]
      intro x hx hxe
      have : (inCh.any fun p => p.1 == ch) = true := List.any_eq_true.mpr ⟨x, hx, hxe⟩
      rw [hi] at this; cases this
    simp [step, step1, markDead, finishWait, Event.isPeer, stepRunning, onIncoming, onError, closeConnection, overwrite,
      Conn.on_incoming_drops, Conn.on_incoming_end, Conn.send_close, Conn.close_connection_arm, PFrame.isClose, Err.res, hfind]
  | close we => cases hi
  | empty => cases hi

/-- **a clean close is reported as clean.** After the local close, whatever legal or illegal
    frames the peer still had in flight, the peer's close (without error) ends the engine with
    no error recorded; with an error, that error is what the handle reports. -/
theorem local_close_then_peer_close (fs : List PFrame) (hfs : ∀ f ∈ fs, f.isClose = false) : ∀ (s : St),
    s.cs = .closeSent → s.phase = .running → s.dead = false → ∀ (we : Bool),
    (run s (fs.map Event.peer ++ [.peer (.close we)])).1.phase = .stopped ∧
    (run s (fs.map Event.peer ++ [.peer (.close we)])).1.res = (if we then some .remoteClosedWithError else s.res) ∧
    wire (run s (fs.map Event.peer ++ [.peer (.close we)])).2 = [] := by
  induction fs with
  | nil =>
    intro s hc hp hd we
    obtain ⟨cs, phase, outCh, freeCh, endSent, endRecv, inCh, res, sessClosed, dead⟩ := s
    simp only at hc hp hd
    subst hc hp hd
    cases we <;>
      simp [run, step, step1, markDead, finishWait, Event.isPeer, stepRunning, onIncoming, onError, closeConnection, overwrite,
        settle, wire, Conn.on_incoming_drops, Conn.on_incoming_close, Conn.close_connection_arm, PFrame.isClose, Err.res]
  | cons f fs ih =>
    intro s hc hp hd we
    have hf : f.isClose = false := hfs f (by simp)
    have hstep : step s (.peer f) = (s, []) := by
      obtain ⟨cs, phase, outCh, freeCh, endSent, endRecv, inCh, res, sessClosed, dead⟩ := s
      simp only at hc hp hd
      subst hc hp hd
      cases f <;> simp_all [step, step1, markDead, finishWait, Event.isPeer, stepRunning, onIncoming, settle,
        Conn.on_incoming_drops, PFrame.isClose]
    have := ih (fun g hg => hfs g (by simp [hg])) s hc hp hd we
    simpa [run, hstep, wire] using this

/-- the local close itself: one close frame, the state CLOSE SENT, the engine keeps reading -/
theorem local_close (s : St) (we : Bool) (hc : s.cs = .opened) (hp : s.phase = .running) :
    wire (step s (.ctlClose we)).2 = [.close we] ∧
    (step s (.ctlClose we)).1.cs = (if we then .discarding else .closeSent) ∧
    (step s (.ctlClose we)).1.phase = .running ∧ (step s (.ctlClose we)).1.res = s.res := by
  obtain ⟨cs, phase, outCh, freeCh, endSent, endRecv, inCh, res, sessClosed, dead⟩ := s
  simp only at hc hp
  subst hc hp
  cases we <;> cases dead <;>
    simp [step, step1, markDead, finishWait, Event.isPeer, stepRunning, settle, wire,
      Conn.on_control_close_ignored, Conn.send_close, Out.onWire]

/-- **the end of the stream is not a clean close.**  While the endpoint still owes or expects a close —
    connection open, close sent and the peer's not yet received, the peer's close received and ours not
    yet written — the end of the incoming stream is an error for the event loop (regenerated from its
    table); it is taken as the normal end only where nothing more is expected from the peer. -/
theorem eof_is_an_error_until_closed :
    eofIsError .opened = true ∧ eofIsError .closeSent = true ∧ eofIsError .closeReceived = true ∧
    eofIsError .openSent = true ∧ eofIsError .openReceived = true ∧ eofIsError .ended = false := by decide

/-- the application's view: after a local close on an opened connection, a stream that ends before the
    peer's close makes the handle report an error, never a clean close -/
theorem eof_after_local_close_reported (s : St) (hc : s.cs = .opened) (hp : s.phase = .running) (hr : s.res = none)
    (hd : s.dead = false) :
    (run s [.ctlClose false, .eof]).1.res ≠ none := by
  obtain ⟨cs, phase, outCh, freeCh, endSent, endRecv, inCh, res, sessClosed, dead⟩ := s
  simp only at hc hp hr hd
  subst hc hp hr hd
  simp [run, step, step1, markDead, finishWait, Event.isPeer, stepRunning, stepWait, settle, onError, closeConnection,
    overwrite, eofIsError, Conn.on_eof_arm, Conn.on_eof_arm_is_err, Conn.on_control_close_ignored, Conn.send_close,
    Conn.close_connection_arm, Conn.send_close_checks_first]

-- non-vacuity: the client opens, a session begins, the peer sends an illegal second open, then closes
example :
    (run (openWith (some .open_)).1 [.ctlBegin, .peer (.begin 3 (some 0)), .peer (.session 3), .peer .open_,
      .peer (.session 3), .peer (.close false)]).2 =
      [.frame 0, .toSession 3, .toSession 3, .close true] := by
  decide +kernel

end Amqp.Conn

namespace Amqp.CloseFlush

theorem source_keeps_verdict_and_drains : verdictKept = true ∧ drainsThenCloses = true := by decide

/-- **queued frames are flushed before the close.**  Whatever the sessions have queued when the peer's
    close is taken up — any number of frames, of any sessions — all of it is written, in order, and
    the answering close is the last frame. -/
theorem peer_close_flushes (queued : List Nat) :
    answer verdictKept drainsThenCloses queued = queued.map .frame ++ [.close] := by
  simp [answer, source_keeps_verdict_and_drains.1, source_keeps_verdict_and_drains.2]

theorem close_is_last_after_flush (queued : List Nat) :
    (answer verdictKept drainsThenCloses queued).getLast? = some .close ∧
    ((answer verdictKept drainsThenCloses queued).filter (· == .close)).length = 1 := by
  rw [peer_close_flushes]
  constructor
  · simp
  · simp [List.filter_append, List.filter_map]

/-- the other order loses frames: propagating the verdict first answers with the close alone -/
theorem early_verdict_drops_the_queue : answer false true [3, 4] = [.close] := by decide

end Amqp.CloseFlush
