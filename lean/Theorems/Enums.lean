/-
  C03 / C05 — enumerations that travel as symbols (error conditions, distribution modes, expiry policies,
  transaction capabilities and errors): the table a value is written with and the table a symbol is read
  with are regenerated from every such `match` in fe2o3-amqp-types/src (`Amqp.Gen.Enums`); they are
  inverse to each other, and the error conditions are the ones of the standard.
-/
import Amqp.Gen.Enums

namespace Amqp.Enums
open Amqp.Gen.Enums

def lookup (k : String) : List (String × String) → Option String
  | [] => none
  | (a, b) :: rest => if a == k then some b else lookup k rest

/-- written with `to` (variant, symbol), read with `of` (symbol, variant): reading what was written gives
    the variant back, and nothing is read as a variant that is not written as that symbol -/
def inverseB (to of : List (String × String)) : Bool :=
  to.all (fun p => lookup p.2 of == some p.1) && of.all (fun p => lookup p.2 to == some p.1)

/-- for every table a value is written with: every table of the same file that reads the same
    enumeration is its inverse, and there is one -/
def tablesOkB (ts : List Table) : Bool :=
  ts.all (fun t =>
    t.dir != "to" ||
      (let readers := ts.filter (fun u => u.file == t.file && u.dir == "of" && (u.enum == t.enum || u.enum == "Self"))
       !readers.isEmpty && readers.all (fun u => inverseB t.pairs u.pairs)))

/-- **symbol_tables_inverse (C03).** Every enumeration of fe2o3-amqp-types that is written as a symbol is
    read back from that symbol as the same variant, for every variant — error conditions of all five
    kinds, distribution modes, terminus expiry policies, transaction capabilities. -/
theorem symbol_tables_inverse : tablesOkB all = true := by decide +kernel

def symbolsOf (enum : String) : List String :=
  match all.find? (fun t => t.enum == enum && t.dir == "to") with
  | some t => t.pairs.map (·.2)
  | none => []

/-- **error_conditions_match_spec (C05).** The symbols the error conditions are written as are those of
    the standard (part 2 §2.8.15–2.8.18, part 4 §4.5.8), written here by hand. -/
theorem error_conditions_match_spec :
    symbolsOf "AmqpError" =
      ["amqp:internal-error", "amqp:not-found", "amqp:unauthorized-access", "amqp:decode-error",
       "amqp:resource-limit-exceeded", "amqp:not-allowed", "amqp:invalid-field", "amqp:not-implemented",
       "amqp:resource-locked", "amqp:precondition-failed", "amqp:resource-deleted", "amqp:illegal-state",
       "amqp:frame-size-too-small"] ∧
    symbolsOf "ConnectionError" =
      ["amqp:connection:forced", "amqp:connection:framing-error", "amqp:connection:redirect"] ∧
    symbolsOf "SessionError" =
      ["amqp:session:window-violation", "amqp:session:errant-link", "amqp:session:handle-in-use",
       "amqp:session:unattached-handle"] ∧
    symbolsOf "LinkError" =
      ["amqp:link:detach-forced", "amqp:link:transfer-limit-exceeded", "amqp:link:message-size-exceeded",
       "amqp:link:redirect", "amqp:link:stolen"] ∧
    symbolsOf "TransactionError" =
      ["amqp:transaction:unknown-id", "amqp:transaction:rollback", "amqp:transaction:timeout"] := by
  decide +kernel

/-- two look-alike arms crossed on the reading side (a seeded change) are not an inverse -/
example : inverseB [("ResourceLocked", "amqp:resource-locked"), ("ResourceDeleted", "amqp:resource-deleted")]
    [("amqp:resource-locked", "ResourceDeleted"), ("amqp:resource-deleted", "ResourceLocked")] = false := by decide

/-- non-vacuity: at least the five error enumerations and three others are there -/
example : (all.filter (fun t => t.dir == "to")).length ≥ 8 := by decide +kernel

end Amqp.Enums
