/-
  C11 — routing: every incoming link frame reaches the endpoint that the peer's handle designates,
  and no two handles of the peer designate the same endpoint.
-/
import Amqp.Routing
import Theorems.C11

namespace Amqp.Routing
open Amqp.Handles

/-! ## the association lists behave like maps -/

theorem get_put_same {β : Type} (k : Nat) (v : β) (m : List (Nat × β)) : get k (put k v m) = some v := by
  simp [get, put]

theorem find_filter_ne {β : Type} (k k' : Nat) (h : k' ≠ k) : ∀ (m : List (Nat × β)),
    (m.filter (·.1 != k)).find? (·.1 == k') = m.find? (·.1 == k')
  | [] => rfl
  | (a, b) :: m => by
    have ih := find_filter_ne (β := β) k k' h m
    by_cases ha : a = k
    · have hf : ((a, b) :: m).filter (·.1 != k) = m.filter (·.1 != k) := by simp [List.filter, ha]
      have hk : (a == k') = false := by
        simp only [beq_eq_false_iff_ne, ne_eq]; intro hc; exact h (hc.symm.trans ha)
      rw [hf, ih, List.find?_cons]
      simp only [hk]
    · have hne : (a != k) = true := by simpa using ha
      have hf : ((a, b) :: m).filter (·.1 != k) = (a, b) :: m.filter (·.1 != k) := by simp [List.filter, hne]
      rw [hf, List.find?_cons, List.find?_cons, ih]

theorem get_filter_ne {β : Type} (k k' : Nat) (h : k' ≠ k) (m : List (Nat × β)) :
    get k' (m.filter (·.1 != k)) = get k' m := by
  unfold get; rw [find_filter_ne k k' h m]

theorem get_put_other {β : Type} (k k' : Nat) (v : β) (m : List (Nat × β)) (h : k' ≠ k) :
    get k' (put k v m) = get k' m := by
  have hk : (k == k') = false := by
    simp only [beq_eq_false_iff_ne, ne_eq]; intro hc; exact h hc.symm
  unfold get put
  rw [List.find?_cons]
  simp only [hk]
  exact congrArg _ (find_filter_ne k k' h m)

theorem get_del_same {β : Type} (k : Nat) : ∀ (m : List (Nat × β)), get k (del k m) = none
  | [] => rfl
  | (a, b) :: m => by
    have ih := get_del_same (β := β) k m
    simp only [get, del] at ih ⊢
    by_cases ha : a = k
    · subst ha; simp [List.filter, ih]
    · have hne : (a != k) = true := by simpa using ha
      have hk : (a == k) = false := by simpa using ha
      simp [List.filter, hne, List.find?, hk, ih]

theorem get_del_other {β : Type} (k k' : Nat) (m : List (Nat × β)) (h : k' ≠ k) :
    get k' (del k m) = get k' m := get_filter_ne k k' h m

/-! ## refinement: the table of the peer's handles is what the peer's attaches and detaches say -/

/-- what the table designates -/
def abs (t : Tab) : Desig := fun h => (get h t.byIn).map (·.lid)

/-- what the specification says about one step: a frame on handle `h` goes to the endpoint `h`
    designates, and is refused as unattached when it designates none -/
def FrameOk (d : Desig) : Op → Out → Prop
  | .inFrame h, o => o = (match d h with | some l => .to l | none => .unattached)
  | .inDetach h, o => o = (match d h with | some l => .to l | none => .unattached)
  | _, _ => True

def Faithful : Desig → List Op → List Out → Prop
  | _, [], [] => True
  | d, op :: ops, o :: os => FrameOk d op o ∧ Faithful (desigStep d op o) ops os
  | _, _, _ => False

theorem step_frameOk (t : Tab) (op : Op) : FrameOk (abs t) op (step t op).2 := by
  cases op with
  | inFrame h =>
    simp only [FrameOk, step, abs]
    cases get h t.byIn <;> rfl
  | inDetach h =>
    simp only [FrameOk, step, abs]
    cases get h t.byIn <;> rfl
  | _ => trivial

theorem step_refines (t : Tab) (op : Op) : abs (step t op).1 = desigStep (abs t) op (step t op).2 := by
  cases op with
  | alloc name =>
    simp only [step]
    cases getName name t.byName with
    | some _ => rfl
    | none => rfl
  | inAttach name h =>
    simp only [step]
    cases hn : getName name t.byName with
    | none => rfl
    | some v =>
      cases v with
      | none => rfl
      | some r =>
        funext x
        simp only [abs, desigStep, Desig.set]
        by_cases hx : x = h
        · subst hx; simp [get_put_same]
        · simp [hx, get_put_other _ _ _ _ hx]
  | inFrame h =>
    simp only [step]
    cases get h t.byIn <;> rfl
  | inDetach h =>
    simp only [step]
    cases hg : get h t.byIn with
    | none => rfl
    | some r =>
      funext x
      simp only [abs, desigStep, Desig.clear]
      by_cases hx : x = h
      · subst hx; simp [get_del_same]
      · simp [hx, get_del_other _ _ _ hx]
  | dealloc k =>
    simp only [step]
    cases hr : t.slab.remove k with
    | mk s o => cases o <;> rfl

/-- **routes_as_designated (C11).** For every history of local attaches and detaches and of frames of
    a peer that picks its handles as it likes (sparse, large, reused after its detach, re-used while
    still attached): every link frame is handed to the endpoint that the peer's handle designates at
    that moment — the one named by the last attach the session accepted on that handle, if the peer
    has not detached it since — and is refused as unattached when the handle designates none. -/
theorem routes_as_designated (ops : List Op) : ∀ (t : Tab), Faithful (abs t) ops (run t ops).2 := by
  induction ops with
  | nil => intro t; trivial
  | cons op ops ih =>
    intro t
    simp only [run, Faithful]
    refine ⟨step_frameOk t op, ?_⟩
    rw [← step_refines]
    exact ih _

/-! ## no two handles of the peer lead to the same endpoint -/

def inLids (t : Tab) : List Nat := t.byIn.map (·.2.lid)

structure Inv (t : Tab) : Prop where
  nodup : (inLids t).Nodup
  waitingApart : ∀ n r, (n, some r) ∈ t.byName → r.lid ∉ inLids t
  waitingOnce : ∀ n1 r1 n2 r2, (n1, some r1) ∈ t.byName → (n2, some r2) ∈ t.byName → r1.lid = r2.lid → n1 = n2
  below : (∀ x ∈ inLids t, x < t.next) ∧ ∀ n r, (n, some r) ∈ t.byName → r.lid < t.next

theorem empty_inv : Inv Tab.empty :=
  ⟨by simp [inLids, Tab.empty], by simp [Tab.empty], by simp [Tab.empty], by simp [inLids, Tab.empty]⟩

theorem getName_mem (n : String) (m : List (String × Option Relay)) (v : Option Relay)
    (h : getName n m = some v) : (n, v) ∈ m := by
  unfold getName at h
  cases hf : m.find? (·.1 == n) with
  | none => simp [hf] at h
  | some p =>
    simp only [hf, Option.map_some, Option.some.injEq] at h
    have hm := List.mem_of_find?_eq_some hf
    have hp := List.find?_some hf
    obtain ⟨a, b⟩ := p
    simp only [beq_iff_eq] at hp
    subst hp h
    exact hm

theorem inLids_filter_sub (k : Nat) (m : List (Nat × Relay)) :
    ((m.filter (·.1 != k)).map (·.2.lid)).Sublist (m.map (·.2.lid)) :=
  List.Sublist.map _ List.filter_sublist

theorem step_inv (t : Tab) (op : Op) (h : Inv t) : Inv (step t op).1 := by
  obtain ⟨h1, h2, h3, h4a, h4b⟩ := h
  cases op with
  | alloc name =>
    simp only [step]
    cases hn : getName name t.byName with
    | some _ => exact ⟨h1, h2, h3, h4a, h4b⟩
    | none =>
      simp only
      refine ⟨h1, ?_, ?_, ?_, ?_⟩
      · intro n r hm
        simp only [putName, List.mem_cons, Prod.mk.injEq, Option.some.injEq, List.mem_filter] at hm
        rcases hm with ⟨_, hr⟩ | ⟨hm, _⟩
        · subst hr
          intro hc
          exact absurd (h4a _ hc) (Nat.lt_irrefl _)
        · exact h2 n r hm
      · intro n1 r1 n2 r2 hm1 hm2 he
        simp only [putName, List.mem_cons, Prod.mk.injEq, Option.some.injEq, List.mem_filter] at hm1 hm2
        rcases hm1 with ⟨hn1, hr1⟩ | ⟨hm1, _⟩ <;> rcases hm2 with ⟨hn2, hr2⟩ | ⟨hm2, _⟩
        · rw [hn1, hn2]
        · subst hr1
          have := h4b n2 r2 hm2
          simp only at he
          omega
        · subst hr2
          have := h4b n1 r1 hm1
          simp only at he
          omega
        · exact h3 n1 r1 n2 r2 hm1 hm2 he
      · intro x hx
        exact Nat.lt_succ_of_lt (h4a x hx)
      · intro n r hm
        simp only [putName, List.mem_cons, Prod.mk.injEq, Option.some.injEq, List.mem_filter] at hm
        rcases hm with ⟨_, hr⟩ | ⟨hm, _⟩
        · subst hr; exact Nat.lt_succ_self _
        · exact Nat.lt_succ_of_lt (h4b n r hm)
  | inAttach name hh =>
    simp only [step]
    cases hn : getName name t.byName with
    | none => exact ⟨h1, h2, h3, h4a, h4b⟩
    | some v =>
      cases v with
      | none => exact ⟨h1, h2, h3, h4a, h4b⟩
      | some r =>
        have hmem := getName_mem _ _ _ hn
        have hsub := inLids_filter_sub hh t.byIn
        have hnot : r.lid ∉ inLids t := h2 _ _ hmem
        simp only
        refine ⟨?_, ?_, ?_, ?_, ?_⟩
        · simp only [inLids, put, List.map_cons, List.nodup_cons]
          exact ⟨fun hc => hnot (hsub.subset hc), h1.sublist hsub⟩
        · intro n r2 hm
          simp only [putName, List.mem_cons, Prod.mk.injEq, reduceCtorEq, and_false, false_or, List.mem_filter,
            bne_iff_ne, ne_eq] at hm
          obtain ⟨hm, hne⟩ := hm
          simp only [inLids, put, List.map_cons, List.mem_cons, not_or]
          refine ⟨fun he => hne (h3 n r2 name r hm hmem he), fun hc => h2 n r2 hm (hsub.subset hc)⟩
        · intro n1 r1 n2 r2 hm1 hm2 he
          simp only [putName, List.mem_cons, Prod.mk.injEq, reduceCtorEq, and_false, false_or, List.mem_filter] at hm1 hm2
          exact h3 n1 r1 n2 r2 hm1.1 hm2.1 he
        · intro x hx
          simp only [inLids, put, List.map_cons, List.mem_cons] at hx
          rcases hx with hx | hx
          · subst hx; exact h4b _ _ hmem
          · exact h4a x (hsub.subset hx)
        · intro n r2 hm
          simp only [putName, List.mem_cons, Prod.mk.injEq, reduceCtorEq, and_false, false_or, List.mem_filter] at hm
          exact h4b n r2 hm.1
  | inFrame hh =>
    simp only [step]
    cases get hh t.byIn <;> exact ⟨h1, h2, h3, h4a, h4b⟩
  | inDetach hh =>
    simp only [step]
    cases hg : get hh t.byIn with
    | none => exact ⟨h1, h2, h3, h4a, h4b⟩
    | some r =>
      have hsub := inLids_filter_sub hh t.byIn
      simp only
      refine ⟨h1.sublist hsub, fun n r2 hm hc => h2 n r2 hm (hsub.subset hc), h3, fun x hx => h4a x (hsub.subset hx), h4b⟩
  | dealloc k =>
    simp only [step]
    cases hr : t.slab.remove k with
    | mk s o =>
      cases o with
      | none => exact ⟨h1, h2, h3, h4a, h4b⟩
      | some name =>
        simp only
        refine ⟨h1, ?_, ?_, h4a, ?_⟩
        · intro n r hm
          exact h2 n r (List.mem_filter.mp hm).1
        · intro n1 r1 n2 r2 hm1 hm2 he
          exact h3 n1 r1 n2 r2 (List.mem_filter.mp hm1).1 (List.mem_filter.mp hm2).1 he
        · intro n r hm
          exact h4b n r (List.mem_filter.mp hm).1

theorem run_inv (ops : List Op) : ∀ (t : Tab), Inv t → Inv (run t ops).1 := by
  induction ops with
  | nil => intro t h; exact h
  | cons op ops ih => intro t h; simp only [run]; exact ih _ (step_inv t op h)

theorem get_some_mem {β : Type} (k : Nat) (v : β) : ∀ (m : List (Nat × β)), get k m = some v → (k, v) ∈ m
  | [], h => by simp [get] at h
  | (a, b) :: m, h => by
    simp only [get, List.find?] at h
    cases hk : a == k with
    | true =>
      simp only [hk, Option.map_some, Option.some.injEq] at h
      have : a = k := by simpa using hk
      subst this h
      exact List.mem_cons_self
    | false =>
      simp only [hk] at h
      exact List.mem_cons_of_mem _ (get_some_mem k v m h)

/-- **one_handle_per_endpoint (C11).** After any history, two different handles of the peer never lead
    to the same endpoint: an endpoint is reached through the one handle on which the peer attached
    it — also when the output handle of a detached link has been given to a new one while the old
    link's entry is still waiting for the peer's detach. -/
theorem one_handle_per_endpoint (ops : List Op) (h1 h2 : Nat) (r1 r2 : Relay)
    (g1 : get h1 (run Tab.empty ops).1.byIn = some r1) (g2 : get h2 (run Tab.empty ops).1.byIn = some r2)
    (he : r1.lid = r2.lid) : h1 = h2 := by
  have inv := run_inv ops Tab.empty empty_inv
  have m1 := get_some_mem _ _ _ g1
  have m2 := get_some_mem _ _ _ g2
  have hnd := inv.nodup
  simp only [inLids] at hnd
  have := Amqp.Handles.nodup_map_inj (fun p : Nat × Relay => p.2.lid) _ hnd (h1, r1) (h2, r2) m1 m2 he
  exact congrArg Prod.fst this

/-- generated obligation: the table operations the model mirrors are present in session/mod.rs, in the
    model's order (a `get` where the model removes, a `take` dropped, a lookup after the insert … flips this) -/
theorem source_routing_shape : sourceShape = true := by decide

/-! ## non-vacuity -/

/-- two links; the first is detached locally and its output handle 0 goes to a third link while the
    peer's handle 7 still leads to the first; frames on 7 reach endpoint 0, on 9 endpoint 2 -/
example : (run Tab.empty [.alloc "a", .alloc "b", .inAttach "a" 7, .inAttach "b" 4294967295, .dealloc 0, .alloc "c",
    .inAttach "c" 9, .inFrame 7, .inFrame 9, .inFrame 4294967295, .inDetach 7, .inFrame 7, .inAttach "b" 3]).2 =
    [.allocated 0 0, .allocated 1 1, .to 0, .to 1, .done, .allocated 2 0, .to 2, .to 0, .to 2, .to 1, .to 0,
     .unattached, .handleInUse] := by decide

end Amqp.Routing
