/-
  C19 — SASL: no connection without successful authentication; SCRAM is mutual.
-/
import Amqp.Sasl
import Theorems.Lemmas.SaslClean

namespace Amqp.Sasl
open Amqp.Frame (Bytes)
open Amqp.Gen.Sasl (FrameKind)

/-! ## splitting at a separator -/

theorem splitOn_ne_nil (sep : UInt8) (l : Bytes) : splitOn sep l ≠ [] := by
  induction l with
  | nil => simp [splitOn]
  | cons b bs ih =>
    unfold splitOn
    by_cases h : b = sep
    · simp [h]
    · simp only [h, if_false]
      cases hs : splitOn sep bs with
      | nil => exact absurd hs ih
      | cons p ps => simp

theorem splitOn_noSep (sep : UInt8) (l : Bytes) (h : sep ∉ l) : splitOn sep l = [l] := by
  induction l with
  | nil => rfl
  | cons b bs ih =>
    have hb : b ≠ sep := fun e => h (by simp [e])
    have hbs : sep ∉ bs := fun m => h (by simp [m])
    unfold splitOn
    simp [hb, ih hbs]

theorem splitOn_append (sep : UInt8) (a b : Bytes) (h : sep ∉ a) :
    splitOn sep (a ++ sep :: b) = a :: splitOn sep b := by
  induction a with
  | nil => simp [splitOn]
  | cons x xs ih =>
    have hx : x ≠ sep := fun e => h (by simp [e])
    have hxs : sep ∉ xs := fun m => h (by simp [m])
    simp only [List.cons_append]
    rw [splitOn]
    simp only [hx, if_false, ih hxs]

/-- the pieces contain no separator, and joined again they are the input -/
theorem splitOn_spec (sep : UInt8) (l : Bytes) :
    joinWith sep (splitOn sep l) = l ∧ ∀ p ∈ splitOn sep l, sep ∉ p := by
  induction l with
  | nil => simp [splitOn, joinWith]
  | cons b bs ih =>
    unfold splitOn
    by_cases h : b = sep
    · subst h
      simp only [if_true]
      constructor
      · cases hs : splitOn b bs with
        | nil => exact absurd hs (splitOn_ne_nil b bs)
        | cons p ps =>
          have := ih.1
          rw [hs] at this
          simp [joinWith, this]
      · intro p hp
        rcases List.mem_cons.mp hp with rfl | hp
        · simp
        · exact ih.2 p hp
    · simp only [h, if_false]
      cases hs : splitOn sep bs with
      | nil => exact absurd hs (splitOn_ne_nil sep bs)
      | cons p ps =>
        rw [hs] at ih
        constructor
        · cases ps with
          | nil => simp [joinWith] at ih ⊢; exact ih.1
          | cons q qs =>
            have := ih.1
            simp only [joinWith, List.cons_append] at this ⊢
            rw [this]
        · intro r hr
          rcases List.mem_cons.mp hr with rfl | hr
          · intro hm
            rcases List.mem_cons.mp hm with e | hm
            · exact h e.symm
            · exact ih.2 p (by simp) hm
          · exact ih.2 r (by simp [hr])

/-! ## PLAIN -/

/-- **PLAIN accepts exactly the configured credentials.**  For a user name and password without
    NUL: the outcome is `ok` iff the response is `[authzid] NUL user NUL password`, byte for byte —
    no missing response, no fourth field, no prefix, nothing that differs in one byte. -/
theorem plain_ok_iff (user pass : Bytes) (hu : (0 : UInt8) ∉ user) (hp : (0 : UInt8) ∉ pass) (resp : Option Bytes) :
    plainValidate user pass resp = .ok ↔
      ∃ authzid, (0 : UInt8) ∉ authzid ∧ resp = some (authzid ++ 0 :: user ++ 0 :: pass) := by
  rw [plainValidate_eq]
  constructor
  · intro h
    unfold plainValidate' at h
    cases resp with
    | none => simp at h
    | some r =>
      simp only at h
      have hspec := splitOn_spec 0 r
      split at h
      · rename_i z authcid passwd hs
        split at h
        · rename_i hc
          refine ⟨z, ?_, ?_⟩
          · exact hspec.2 z (by rw [hs]; simp)
          · have := hspec.1
            rw [hs] at this
            simp only [joinWith] at this
            obtain ⟨rfl, rfl⟩ := hc
            rw [← this]; simp
        · simp at h
      · simp at h
  · rintro ⟨z, hz, rfl⟩
    unfold plainValidate'
    have h1 : splitOn 0 (z ++ 0 :: (user ++ 0 :: pass)) = [z, user, pass] := by
      rw [splitOn_append 0 z _ hz, splitOn_append 0 user _ hu, splitOn_noSep 0 pass hp]
    simp [h1]

/-- anything else is `auth`; the PLAIN acceptor never says `sys` to an init and never `ok` to a response -/
theorem plain_codes (user pass : Bytes) (resp : Option Bytes) :
    plainValidate user pass resp = .ok ∨ plainValidate user pass resp = .auth := by
  rw [plainValidate_eq]
  unfold plainValidate'
  cases resp with
  | none => simp
  | some r =>
    simp only
    split
    · split <;> simp
    · simp

example : plainValidate [103, 117] [112, 119] (some [0, 103, 117, 0, 112, 119]) = .ok := by decide
example : plainValidate [103, 117] [112, 119] (some [97, 0, 103, 117, 0, 112, 119, 0, 120]) = .auth := by decide
example : plainValidate [103, 117] [112, 119] (some [0, 103, 117, 0, 112]) = .auth := by decide

/-! ## the listener's loop -/

/-- what was written when the loop ends: challenges, then at most one outcome -/
theorem listenLoop_passed_iff {σ : Type} (acc : Acceptor σ) : ∀ (ins : List In) (s : σ),
    (listenLoop acc s ins).2 = .passed ↔ ∃ x, (listenLoop acc s ins).1.getLast? = some (.outcome .ok x) := by
  intro ins
  simp only [listenLoop_eq]
  induction ins with
  | nil => intro s; simp [listenLoop']
  | cons i rest ih =>
    intro s
    cases i with
    | eof => simp [listenLoop']
    | bad => simp [listenLoop']
    | frame f =>
      cases f with
      | other k => simp [listenLoop']
      | init m r =>
        simp only [listenLoop']
        rcases hacc : acc.onInit s m r with ⟨s', fr⟩
        cases fr with
        | challenge c =>
          simp only
          have := ih s'
          rcases hl : listenLoop' acc s' rest with ⟨out, v⟩
          rw [hl] at this
          simp only at this ⊢
          rw [this]
          cases out with
          | nil => simp
          | cons o os => simp [List.getLast?_cons_cons]
        | outcome code x =>
          cases code <;> simp
      | response r =>
        simp only [listenLoop']
        rcases hacc : acc.onResponse s r with ⟨s', fr⟩
        cases fr with
        | challenge c =>
          simp only
          have := ih s'
          rcases hl : listenLoop' acc s' rest with ⟨out, v⟩
          rw [hl] at this
          simp only at this ⊢
          rw [this]
          cases out with
          | nil => simp
          | cons o os => simp [List.getLast?_cons_cons]
        | outcome code x =>
          cases code <;> simp

/-- **no AMQP layer without the SASL header**: a peer that starts with the AMQP header (or any
    other) is turned away before a single SASL frame is looked at -/
theorem listen_needs_sasl_header {σ : Type} (acc : Acceptor σ) (s : σ) (h : Hdr) (ins : List In)
    (hp : (listen acc s h ins).2 = .passed) : h = .sasl := by
  cases h <;> simp [listen] at hp ⊢

/-- the frame that lets the loop end with `passed` is an init or a response which the acceptor
    answered with outcome `ok`; every frame before it was an init or a response answered with a
    challenge.  In particular a frame of any other kind, an undecodable or AMQP frame and the
    end of the stream all end the loop in failure. -/
theorem listenLoop_passed {σ : Type} (acc : Acceptor σ) : ∀ (ins : List In) (s : σ),
    (listenLoop acc s ins).2 = .passed →
      ∃ pre s' f rest x, ins = pre ++ .frame f :: rest ∧
        (∀ i ∈ pre, ∃ g, i = .frame g ∧ ∀ k, g ≠ .other k) ∧
        ((∃ m r, f = .init m r ∧ (acc.onInit s' m r).2 = .outcome .ok x) ∨
         (∃ r, f = .response r ∧ (acc.onResponse s' r).2 = .outcome .ok x)) := by
  intro ins
  simp only [listenLoop_eq]
  induction ins with
  | nil => intro s h; simp [listenLoop'] at h
  | cons i rest ih =>
    intro s h
    cases i with
    | eof => simp [listenLoop'] at h
    | bad => simp [listenLoop'] at h
    | frame f =>
      cases f with
      | other k => simp [listenLoop'] at h
      | init m r =>
        simp only [listenLoop'] at h
        rcases hacc : acc.onInit s m r with ⟨s1, fr⟩
        rw [hacc] at h
        cases fr with
        | challenge c =>
          simp only at h
          obtain ⟨pre, s', f, rest', x, he, hpre, hf⟩ := ih s1 h
          refine ⟨.frame (.init m r) :: pre, s', f, rest', x, by simp [he], ?_, hf⟩
          intro j hj
          rcases List.mem_cons.mp hj with rfl | hj
          · exact ⟨_, rfl, by simp⟩
          · exact hpre j hj
        | outcome code x =>
          cases code <;> simp at h
          exact ⟨[], s, .init m r, rest, x, rfl, by simp, Or.inl ⟨m, r, rfl, by rw [hacc]⟩⟩
      | response r =>
        simp only [listenLoop'] at h
        rcases hacc : acc.onResponse s r with ⟨s1, fr⟩
        rw [hacc] at h
        cases fr with
        | challenge c =>
          simp only at h
          obtain ⟨pre, s', f, rest', x, he, hpre, hf⟩ := ih s1 h
          refine ⟨.frame (.response r) :: pre, s', f, rest', x, by simp [he], ?_, hf⟩
          intro j hj
          rcases List.mem_cons.mp hj with rfl | hj
          · exact ⟨_, rfl, by simp⟩
          · exact hpre j hj
        | outcome code x =>
          cases code <;> simp at h
          exact ⟨[], s, .response r, rest, x, rfl, by simp, Or.inr ⟨r, rfl, by rw [hacc]⟩⟩

/-- **PLAIN listener**: the AMQP layer is reached only by a peer whose first SASL frame is an init
    carrying exactly the configured credentials -/
theorem plain_listener_sound (user pass : Bytes) (hu : (0 : UInt8) ∉ user) (hp : (0 : UInt8) ∉ pass)
    (h : Hdr) (ins : List In) (hpass : (listen (plainAcceptor user pass) () h ins).2 = .passed) :
    h = .sasl ∧ ∃ m authzid rest, (0 : UInt8) ∉ authzid ∧
      ins = .frame (.init m (some (authzid ++ 0 :: user ++ 0 :: pass))) :: rest := by
  have hh := listen_needs_sasl_header _ _ _ _ hpass
  subst hh
  refine ⟨rfl, ?_⟩
  simp only [listen, listenLoop_eq] at hpass
  cases ins with
  | nil => simp [listenLoop'] at hpass
  | cons i rest =>
    cases i with
    | eof => simp [listenLoop'] at hpass
    | bad => simp [listenLoop'] at hpass
    | frame f =>
      cases f with
      | other k => simp [listenLoop'] at hpass
      | response r => simp [listenLoop', plainAcceptor] at hpass
      | init m r =>
        simp only [listenLoop', plainAcceptor] at hpass
        have hv : plainValidate user pass r = .ok := by
          cases hc : plainValidate user pass r <;> simp [hc] at hpass ⊢
        obtain ⟨z, hz, rfl⟩ := (plain_ok_iff user pass hu hp r).mp hv
        exact ⟨m, z, rest, hz, rfl⟩

/-- and such a peer is let in -/
theorem plain_listener_complete (user pass authzid m : Bytes) (hu : (0 : UInt8) ∉ user) (hp : (0 : UInt8) ∉ pass)
    (hz : (0 : UInt8) ∉ authzid) (rest : List In) :
    (listen (plainAcceptor user pass) () .sasl (.frame (.init m (some (authzid ++ 0 :: user ++ 0 :: pass))) :: rest)).2 = .passed := by
  have := (plain_ok_iff user pass hu hp (some (authzid ++ 0 :: user ++ 0 :: pass))).mpr ⟨authzid, hz, rfl⟩
  simp only [List.append_assoc, List.cons_append] at this
  simp [listen, listenLoop_eq, listenLoop', plainAcceptor, this]

/-! ## SCRAM on the listener -/

/-- an init never authenticates -/
theorem scram_init_never_ok (mech : Bytes) (creds : Bytes → Option Stored) (sn : Bytes) (s : SrvState) (m : Bytes)
    (resp : Option Bytes) (x : Option Bytes) : (scramOnInit mech creds sn s m resp).2 ≠ .outcome .ok x := by
  unfold scramOnInit
  split
  · simp
  · split
    · simp
    · split <;> simp

/-- the state in which a response is looked at comes from an init of this connection: the nonce
    the server remembers is the client's nonce extended by the server nonce drawn for that init -/
theorem scram_firstSent_origin (mech : Bytes) (creds : Bytes → Option Stored) (sn : Bytes) (s : SrvState) (m : Bytes)
    (resp : Option Bytes) (user bare nonce msg : Bytes)
    (h : (scramOnInit mech creds sn s m resp).1 = .firstSent user bare nonce msg) (hs : s ≠ .firstSent user bare nonce msg) :
    m = mech ∧ ∃ cf, resp = some cf ∧ serverFirst creds sn cf = some (user, bare, nonce, msg) := by
  unfold scramOnInit at h
  split at h
  · exact absurd h hs
  · rename_i hm
    split at h
    · exact absurd h hs
    · rename_i cf
      split at h
      · exact absurd h hs
      · rename_i u b n ms hsf
        simp only [SrvState.firstSent.injEq] at h
        obtain ⟨rfl, rfl, rfl, rfl⟩ := h
        exact ⟨by simpa using hm, cf, rfl, hsf⟩

theorem serverFirst_nonce (creds : Bytes → Option Stored) (sn cf user bare nonce msg : Bytes)
    (h : serverFirst creds sn cf = some (user, bare, nonce, msg)) :
    ∃ cnonce st, nonce = cnonce ++ sn ∧ creds user = some st ∧
      msg = str "r=" ++ nonce ++ comma :: str "s=" ++ b64Encode st.salt ++ comma :: str "i=" ++ natDigits st.iterations ∧
      stripPrefix (str "n,,") cf = some bare := by
  unfold serverFirst at h
  split at h
  · simp at h
  · split at h
    · simp at h
    · rename_i bare' hb
      simp only at h
      split at h
      · rename_i u cn hu hc
        split at h
        · simp at h
        · rename_i st hst
          simp only [Option.some.injEq, Prod.mk.injEq] at h
          obtain ⟨rfl, rfl, rfl, rfl⟩ := h
          exact ⟨cn, st, rfl, hst, rfl, hb⟩
      · simp at h

/-- **what a verified client-final proves.**  The server answers `ok` to a response only in the
    state left by an init of the same connection, and only if the message names that exchange's
    nonce, binds the channel as the client-first did (`n,,`), and its proof, combined with
    `HMAC(StoredKey, AuthMessage)` over *this* exchange's client-first, server-first and the
    message itself, gives a key whose hash is the stored key of the user named in the client-first. -/
theorem scram_response_ok (cr : Crypto) (creds : Bytes → Option Stored) (s : SrvState) (r : Bytes) (x : Option Bytes)
    (h : (scramOnResponse cr creds s r).2 = .outcome .ok x) :
    ∃ user bare nonce msg st proofB64 proof clientKey,
      s = .firstSent user bare nonce msg ∧ creds user = some st ∧
      ((splitOn comma r).head? >>= stripPrefix (str "c=")) >>= b64Decode = some (str "n,,") ∧
      (splitOn comma r)[1]? >>= stripPrefix (str "r=") = some nonce ∧
      (splitOn comma r).getLast? >>= stripPrefix (str "p=") = some proofB64 ∧
      b64Decode proofB64 = some proof ∧
      xorBytes proof (cr.hmac st.storedKey (authMessage bare msg (r.take (r.length - (proofB64.length + 2 + 1))))) = some clientKey ∧
      cr.h clientKey = st.storedKey ∧
      x = some (str "v=" ++ b64Encode (cr.hmac st.serverKey (authMessage bare msg (r.take (r.length - (proofB64.length + 2 + 1)))))) := by
  unfold scramOnResponse at h
  split at h
  · rename_i user bare nonce msg
    split at h
    · simp at h
    · rename_i st hst
      split at h
      · rename_i v hv
        simp only [ServerFrame.outcome.injEq, true_and] at h
        subst h
        simp only [serverFinal] at hv
        split at hv
        · simp at hv
        · split at hv
          · simp at hv
          · rename_i cb hcb
            split at hv
            · simp at hv
            · rename_i hcbd
              split at hv
              · simp at hv
              · rename_i n hn
                split at hv
                · simp at hv
                · rename_i hnn
                  split at hv
                  · simp at hv
                  · rename_i pb hpb
                    split at hv
                    · simp at hv
                    · rename_i proof hproof
                      split at hv
                      · simp at hv
                      · rename_i ck hck
                        split at hv
                        · simp at hv
                        · rename_i hh
                          simp only [Option.some.injEq] at hv
                          refine ⟨user, bare, nonce, msg, st, pb, proof, ck, rfl, hst, ?_, ?_, hpb, hproof, hck, ?_, ?_⟩
                          · rw [hcb]; simpa using hcbd
                          · rw [hn]; simpa using hnn
                          · simpa using hh
                          · rw [← hv]
      · simp at h
  · simp at h

/-- a replayed client-final does not verify against another exchange: it would have to name that
    exchange's nonce, which ends with a server nonce drawn afresh -/
theorem scram_replay_needs_same_nonce (cr : Crypto) (creds : Bytes → Option Stored) (user bare nonce msg user' bare' nonce' msg' : Bytes)
    (r : Bytes) (x x' : Option Bytes)
    (h : (scramOnResponse cr creds (.firstSent user bare nonce msg) r).2 = .outcome .ok x)
    (h' : (scramOnResponse cr creds (.firstSent user' bare' nonce' msg') r).2 = .outcome .ok x') : nonce = nonce' := by
  obtain ⟨_, _, n1, _, _, _, _, _, hs, _, _, hn, _⟩ := scram_response_ok cr creds _ r x h
  obtain ⟨_, _, n2, _, _, _, _, _, hs', _, _, hn', _⟩ := scram_response_ok cr creds _ r x' h'
  simp only [SrvState.firstSent.injEq] at hs hs'
  obtain ⟨_, _, rfl, _⟩ := hs
  obtain ⟨_, _, rfl, _⟩ := hs'
  rw [hn] at hn'
  simpa using hn'

/-- **SCRAM listener**: the AMQP layer is reached only through a response the acceptor verified
    (`scram_response_ok`), in a state set up by an earlier init of the same connection -/
theorem scram_listener_sound (cr : Crypto) (mech : Bytes) (creds : Bytes → Option Stored) (nonces : List Bytes)
    (h : Hdr) (ins : List In)
    (hpass : (listen (scramAcceptor cr mech creds) (.initial, nonces) h ins).2 = .passed) :
    h = .sasl ∧ ∃ (pre : List In) (s' : SrvState × List Bytes) (r : Bytes) (rest : List In) (x : Option Bytes), ins = pre ++ .frame (.response r) :: rest ∧
      (scramOnResponse cr creds s'.1 r).2 = .outcome .ok x ∧ ∃ user bare nonce msg, s'.1 = SrvState.firstSent user bare nonce msg := by
  have hh := listen_needs_sasl_header _ _ _ _ hpass
  subst hh
  refine ⟨rfl, ?_⟩
  simp only [listen] at hpass
  obtain ⟨pre, s', f, rest, x, he, _, hf⟩ := listenLoop_passed _ ins _ hpass
  rcases hf with ⟨m, r, rfl, hok⟩ | ⟨r, rfl, hok⟩
  · exfalso
    simp only [scramAcceptor] at hok
    exact scram_init_never_ok mech creds _ s'.1 m r x hok
  · simp only [scramAcceptor] at hok
    obtain ⟨u, b, n, ms, _, _, _, _, hs, _⟩ := scram_response_ok cr creds s'.1 r x hok
    exact ⟨pre, s', r, rest, x, he, hok, u, b, n, ms, hs⟩

/-! ## SCRAM on the client -/

/-- **a non-OK outcome is never success** -/
theorem client_refused_on_non_ok (cr : Crypto) (mech user pw : Bytes) (s : CliState) (nonces : List Bytes)
    (code : Code) (extra : Option Bytes) (hc : code ≠ .ok) :
    scramCliStep cr mech user pw s nonces (.frame (.outcome code extra)) = .done (.refused code) := by
  rw [scramCliStep_eq]
  cases code <;> simp [scramCliStep'] at hc ⊢

/-- **the only way to `authenticated`**: an outcome `ok` that carries a server-final whose `v=` is,
    base64-decoded, exactly the signature the client computed for this exchange — in the state
    reached by answering a challenge -/
theorem client_authenticated_iff (cr : Crypto) (mech user pw : Bytes) (s : CliState) (nonces : List Bytes) (i : SrvIn) :
    scramCliStep cr mech user pw s nonces i = .done .authenticated ↔
      ∃ sf sig, i = .frame (.outcome .ok (some sf)) ∧ s = .finalSent sig ∧ validServerFinal sf sig = true := by
  constructor
  · intro h
    rw [scramCliStep_eq] at h
    cases i with
    | eof => simp [scramCliStep'] at h
    | bad => simp [scramCliStep'] at h
    | frame f =>
      cases f with
      | other k => simp [scramCliStep'] at h
      | mechanisms ms => simp only [scramCliStep'] at h; split at h <;> simp at h
      | challenge c =>
        simp only [scramCliStep'] at h
        split at h
        · simp at h
        · split at h
          · split at h <;> simp at h
          · simp at h
      | outcome code extra =>
        cases code with
        | ok =>
          simp only [scramCliStep'] at h
          split at h
          · rename_i sf sig
            split at h
            · rename_i hv; exact ⟨sf, sig, rfl, rfl, hv⟩
            · simp at h
          · simp at h
        | auth => simp [scramCliStep'] at h
        | sys => simp [scramCliStep'] at h
        | sysPerm => simp [scramCliStep'] at h
        | sysTemp => simp [scramCliStep'] at h
  · rintro ⟨sf, sig, rfl, rfl, hv⟩
    simp [scramCliStep_eq, scramCliStep', hv]

/-- the state `finalSent sig` is only entered by answering a challenge, and `sig` is then the
    signature computed from that very challenge and the client-first of the latest init -/
theorem client_finalSent_origin (cr : Crypto) (mech user pw : Bytes) (s : CliState) (nonces nonces' : List Bytes)
    (i : SrvIn) (sig : Bytes) (o : CliOut) (h : scramCliStep cr mech user pw s nonces i = .cont (.finalSent sig) nonces' o) :
    ∃ c nonce bare final, i = .frame (.challenge c) ∧ s = .firstSent nonce bare ∧ validUtf8 c = true ∧
      clientFinal cr nonce pw c bare = some (final, sig) ∧ o = .response final := by
  rw [scramCliStep_eq] at h
  cases i with
  | eof => simp [scramCliStep'] at h
  | bad => simp [scramCliStep'] at h
  | frame f =>
    cases f with
    | other => simp [scramCliStep'] at h
    | mechanisms ms => simp only [scramCliStep'] at h; split at h <;> simp at h
    | outcome code extra =>
      cases code with
      | ok => simp only [scramCliStep'] at h; split at h <;> (try split at h) <;> simp at h
      | auth => simp [scramCliStep'] at h
      | sys => simp [scramCliStep'] at h
      | sysPerm => simp [scramCliStep'] at h
      | sysTemp => simp [scramCliStep'] at h
    | challenge c =>
      simp only [scramCliStep'] at h
      split at h
      · simp at h
      · rename_i hu
        split at h
        · rename_i nonce bare
          split at h
          · simp at h
          · rename_i final sg hcf
            simp only [CliStepRes.cont.injEq, CliState.finalSent.injEq] at h
            obtain ⟨rfl, _, rfl⟩ := h
            exact ⟨c, nonce, bare, final, rfl, rfl, by simpa using hu, hcf, rfl⟩
        · simp at h

/-- **what the expected signature is**: `HMAC(HMAC(SaltedPassword, "Server Key"), AuthMessage)` with
    the salted password derived from the client's own password and the salt and iteration count of
    the challenge as received, over the client-first it sent, the challenge as received and the
    client-final it sends — and the challenge's nonce extends the client's.  A server that does not
    know the password (or a message changed on the way) cannot make the two sides agree. -/
theorem clientFinal_spec (cr : Crypto) (cnonce pw c bare final sig : Bytes)
    (h : clientFinal cr cnonce pw c bare = some (final, sig)) :
    ∃ nonce salt iters salted,
      stripPrefix (str "r=") ((splitOn comma c).headD []) = some nonce ∧ startsWith nonce cnonce = true ∧
      ((splitOn comma c)[1]? >>= stripPrefix (str "s=")) >>= b64Decode = some salt ∧
      ((splitOn comma c)[2]? >>= stripPrefix (str "i=")) >>= parseU32 = some iters ∧
      cr.hi pw salt iters = some salted ∧
      sig = cr.hmac (cr.hmac salted (str "Server Key")) (authMessage bare c (str "c=biws,r=" ++ nonce)) := by
  unfold clientFinal at h
  simp only at h
  split at h
  · simp at h
  · split at h
    · simp at h
    · split at h
      · simp at h
      · rename_i nonce hn
        split at h
        · simp at h
        · rename_i hsw
          split at h
          · simp at h
          · rename_i salt hs
            split at h
            · simp at h
            · rename_i iters hi
              split at h
              · simp at h
              · rename_i salted hsp
                split at h
                · simp at h
                · simp only [Option.some.injEq, Prod.mk.injEq] at h
                  exact ⟨nonce, salt, iters, salted, hn, by simpa using hsw, hs, hi, hsp, h.2.symm⟩

/-- the loop: `authenticated` comes out only if some frame took the `authenticated` step -/
theorem client_loop_authenticated (cr : Crypto) (mech user pw : Bytes) : ∀ (ins : List SrvIn) (s : CliState) (nonces : List Bytes),
    (scramClientLoop cr mech user pw s nonces ins).2 = .authenticated →
      ∃ pre s' n' i rest, ins = pre ++ i :: rest ∧ scramCliStep cr mech user pw s' n' i = .done .authenticated := by
  intro ins
  induction ins with
  | nil => intro s n h; simp [scramClientLoop] at h
  | cons i rest ih =>
    intro s n h
    simp only [scramClientLoop] at h
    cases hstep : scramCliStep cr mech user pw s n i with
    | done v =>
      rw [hstep] at h
      simp only at h
      subst h
      exact ⟨[], s, n, i, rest, rfl, hstep⟩
    | cont s1 n1 o =>
      rw [hstep] at h
      simp only at h
      obtain ⟨pre, s', n', j, rest', he, hj⟩ := ih s1 n1 h
      exact ⟨i :: pre, s', n', j, rest', by simp [he], hj⟩

/-- **mutual authentication**: the client reports success only after an outcome `ok` whose
    server-final carries the expected signature -/
theorem client_sound (cr : Crypto) (mech user pw : Bytes) (ins : List SrvIn) (nonces : List Bytes)
    (h : (scramClientLoop cr mech user pw .initial nonces ins).2 = .authenticated) :
    ∃ pre sf sig rest, ins = pre ++ .frame (.outcome .ok (some sf)) :: rest ∧ validServerFinal sf sig = true := by
  obtain ⟨pre, s', n', i, rest, he, hi⟩ := client_loop_authenticated cr mech user pw ins _ _ h
  obtain ⟨sf, sig, rfl, _, hv⟩ := (client_authenticated_iff cr mech user pw s' n' i).mp hi
  exact ⟨pre, sf, sig, rest, he, hv⟩

/-- straight from `initial` an outcome `ok` is an error, whatever it carries: the challenge cannot be skipped -/
theorem client_cannot_skip_challenge (cr : Crypto) (mech user pw : Bytes) (nonces : List Bytes) (ms : List Bytes)
    (extra : Option Bytes) (rest : List SrvIn) (hm : ms.contains mech = true) :
    (scramClientLoop cr mech user pw .initial nonces (.frame (.mechanisms ms) :: .frame (.outcome .ok extra) :: rest)).2 = .error := by
  simp only [scramClientLoop, scramCliStep_eq, scramCliStep', hm, if_true]

/-- a second challenge after the client-final is an error -/
theorem client_rejects_extra_challenge (cr : Crypto) (mech user pw : Bytes) (sig : Bytes) (nonces : List Bytes) (c : Bytes) :
    scramCliStep cr mech user pw (.finalSent sig) nonces (.frame (.challenge c)) = .done .error := by
  rw [scramCliStep_eq]; simp only [scramCliStep']; split <;> simp

/-- PLAIN / ANONYMOUS on the client: success only on outcome `ok` -/
theorem simple_client_sound (mech : Bytes) (resp : Option Bytes) : ∀ (ins : List SrvIn),
    (simpleClientLoop mech resp ins).2 = .authenticated → ∃ pre x rest, ins = pre ++ .frame (.outcome .ok x) :: rest := by
  intro ins
  rw [simpleClientLoop_eq]
  induction ins with
  | nil => intro h; simp [simpleClientLoop'] at h
  | cons i rest ih =>
    intro h
    cases i with
    | eof => simp [simpleClientLoop'] at h
    | bad => simp [simpleClientLoop'] at h
    | frame f =>
      cases f with
      | other k => simp [simpleClientLoop'] at h
      | challenge c => simp [simpleClientLoop'] at h
      | mechanisms ms =>
        simp only [simpleClientLoop'] at h
        split at h
        · simp only at h
          obtain ⟨pre, x, r, he⟩ := ih h
          exact ⟨.frame (.mechanisms ms) :: pre, x, r, by simp [he]⟩
        · simp at h
      | outcome code x =>
        cases code <;> simp [simpleClientLoop'] at h
        exact ⟨[], x, rest, rfl⟩

end Amqp.Sasl
