/-
  C08 — Sender link credit: never exceed granted credit; blocked sends always wake.
-/
import Theorems.Lemmas.Credit

namespace Amqp.Credit
open Amqp Amqp.Gen.Credit

def History.WF (ops : List Op) : Prop := ∀ op ∈ ops, op.WF

/-- every delivery sent while running `ops` has a delivery-count inside the
    limit `[delivery-count_rcv, +link-credit_rcv)` of the receiver's latest flow -/
def Safe : SSt → Lim → List Op → Prop
  | _, _, [] => True
  | s, l, op :: ops =>
      (∀ t ∈ sentTags (step s op).2, inWindow (limAfter s l op).base (limAfter s l op).len t) ∧
      Safe (step s op).1 (limAfter s l op) ops

/-- a freshly attached sender: no credit yet -/
def attached (dc : Nat) : SSt := { dc := dc, lc := 0, initDc := dc, drain := false }

theorem safe_of_inv (ops : List Op) : ∀ (s : SSt) (l : Lim), CInv s l → History.WF ops → Safe s l ops := by
  induction ops with
  | nil => intro _ _ _ _; trivial
  | cons op ops ih =>
    intro s l h hwf
    obtain ⟨hi, hall⟩ := step_inv s l op h (hwf op (by simp))
    exact ⟨hall, ih _ _ hi (fun o ho => hwf o (by simp [ho]))⟩

/-- **credit_safe.** For every flow history (grants, reductions, drain, unset
    delivery-count, delivery-counts anywhere including around 2^32) interleaved
    with sends, no delivery is sent beyond `delivery-count_rcv + link-credit_rcv`
    of the latest flow (serial arithmetic). -/
theorem credit_safe (dc : Nat) (ops : List Op) (h : dc < 4294967296) (hops : History.WF ops) :
    Safe (attached dc) ⟨dc, 0⟩ ops :=
  safe_of_inv ops _ _ ⟨h, h, h, by show (0 : Nat) < 4294967296; omega, Or.inl rfl⟩ hops

/-- **one_credit_per_delivery.** A send that goes through takes exactly one
    credit and advances delivery-count by one (mod 2^32); the tag it gets is the
    previous delivery-count.  A send without credit changes nothing. -/
theorem one_credit_per_delivery (s : SSt) :
    (∀ s' tag, consume s 1 = some (s', tag) →
        1 ≤ s.lc ∧ s'.lc = s.lc - 1 ∧ s'.dc = (s.dc + 1) % 4294967296 ∧ tag = s.dc ∧
        s'.initDc = s.initDc ∧ s'.drain = s.drain) ∧
    (consume s 1 = none ↔ s.lc = 0) := by
  constructor
  · intro s' tag h
    unfold consume at h
    by_cases hc : consume_link_credit.cond_if_0 1 s.lc = true
    · simp [hc] at h
    · simp only [hc] at h
      have hpos : 1 ≤ s.lc := by simp [consume_link_credit.cond_if_0] at hc; omega
      cases h
      simp [consume_link_credit.assign_delivery_count_0, consume_link_credit.assign_link_credit_0,
        wadd32, ssub32, hpos]
  · unfold consume
    simp [consume_link_credit.cond_if_0]

/-- **drain_exhausts.** A flow with the drain flag leaves the sender with zero
    credit, delivery-count advanced by all the credit it had (`grant`: after
    applying the flow's own grant), and answers with a flow that shows exactly
    that state (credit 0, drain set). -/
theorem drain_exhausts (s : SSt) (f : LFlow) (hd : f.drain = true) :
    (onFlow s f).1.lc = 0 ∧
      (onFlow s f).1.dc = (s.dc + (grant s f).lc) % 4294967296 ∧
      (onFlow s f).2 = some ⟨(onFlow s f).1.dc, 0, true⟩ := by
  obtain ⟨g1, _, _⟩ := grant_fields s f
  simp [onFlow, hd, drained, echoOf, sender_on_incoming_flow.cond_if_0, sender_on_incoming_flow.assign_drain_0,
    sender_on_incoming_flow.assign_link_credit_1, sender_on_incoming_flow.assign_delivery_count_0, wadd32, g1]

/-- generated obligation: the source creates the `Notified` future before the credit check -/
theorem notified_created_before_check : notifiedFirst = true := by decide

/-- **no_lost_wakeup.** In every reachable state of the wait protocol (any
    interleaving of the waiting task with the session task's update / notify
    steps): if the sender is parked, enough credit is there and the session task
    has finished notifying, then the wake-up is enabled. -/
theorem no_lost_wakeup (credit need : Nat) (as : List Act) :
    let s := nRun notifiedFirst (nInit credit need) as
    ∀ n, s.pc = .parked n → s.need ≤ s.credit → s.pending = false → s.calls > n := by
  rw [notified_created_before_check]
  intro s n hp hc hpend
  have hinv : NInv s := nRun_inv as _ (by simp [NInv, nInit])
  simp only [NInv, hp] at hinv
  cases hinv.2 hc with
  | inl h => exact h
  | inr h => simp [hpend] at h

theorem wakes_of_inv (t : NSt) (hinv : NInv t) (hc : t.need ≤ t.credit) (hpend : t.pending = false) :
    (cRun true t 4).pc = .done := by
  have hc' : t.credit ≥ t.need := hc
  cases hp : t.pc with
  | start => simp [cRun, cStep, hp, hc']
  | snapped n => simp [cRun, cStep, hp, hc']
  | failed => simp [NInv, hp] at hinv
  | parked n =>
    simp only [NInv, hp] at hinv
    have : t.calls > n := by
      cases hinv.2 hc with
      | inl h => exact h
      | inr h => simp [hpend] at h
    simp [cRun, cStep, hp, this, hc']
  | done => simp [cRun, cStep, hp]

/-- **wakes.** From any reachable state in which enough credit has been granted
    and announced, the waiting send completes within four steps of its own
    task, whatever the interleaving was before. -/
theorem wakes (credit need : Nat) (as : List Act) :
    let s := nRun notifiedFirst (nInit credit need) as
    s.need ≤ s.credit → s.pending = false → (cRun notifiedFirst s 4).pc = .done := by
  rw [notified_created_before_check]
  intro s hc hpend
  exact wakes_of_inv s (nRun_inv as _ (by simp [NInv, nInit])) hc hpend

/-- The old order (check, then create the `Notified`) *does* lose the wake-up:
    a machine-checked counterexample run. -/
theorem old_order_loses_wakeup :
    let s := nRun false (nInit 0 1) [.cStep, .pUpdate 5, .pNotify, .cStep]
    s.pc = .parked 1 ∧ s.need ≤ s.credit ∧ s.pending = false ∧ ¬ s.calls > 1 ∧
      (cRun false s 8).pc = .parked 1 := by decide

/-! ### non-vacuity -/
def sampleOps : List Op :=
  [.flow ⟨none, some 3, false, false⟩, .send, .send, .flow ⟨some 4294967295, some 4, false, true⟩,
   .send, .send, .send, .send, .flow ⟨none, none, true, false⟩]

example : History.WF sampleOps := by
  intro op hop
  simp only [sampleOps, List.mem_cons, List.mem_nil_iff, or_false] at hop
  rcases hop with h | h | h | h | h | h | h | h | h <;> subst h <;> simp [Op.WF]

example : sentTags (run (attached 4294967294) sampleOps).2 = [4294967294, 4294967295, 0, 1, 2] := by decide

/-- **try_consume_is_consume.** The non-waiting taker (`TryConsume::try_consume`, used when a dropped
    transaction rolls back) is the same function as the waiting one's `consume_link_credit`: it takes a
    credit exactly when there is one, and a failed attempt changes nothing — in particular the
    delivery-count, so the receiver's next grant is not eaten by a delivery that never happened. -/
theorem try_consume_is_consume (s : SSt) (n : Nat) : tryConsume s n = consume s n := by
  unfold tryConsume consume
  simp [try_consume.cond_if_0, consume_link_credit.cond_if_0, try_consume.assign_delivery_count_0,
    consume_link_credit.assign_delivery_count_0, try_consume.assign_link_credit_0,
    consume_link_credit.assign_link_credit_0]

/-- generated obligation: the model's `send` is `consume 1` because the source waits for and takes one
    credit per delivery -/
theorem source_one_credit_per_delivery : oneCreditPerDelivery = true := by decide

/-! ### flows buffered by a listener until the link is accepted -/

theorem source_take_rechecks : takeRechecks = true := by decide

/-- **no_send_on_revoked_credit (C08).** Whatever flows the session task applies while a send that had
    seen a credit waits for room — a lower credit, a delivery-count that uses the credit up, a drain — the
    send transmits only if, after the last of them, there is a credit to take, and it takes exactly that
    one: the latest flow decides, not the one the send saw before it started waiting. -/
theorem no_send_on_revoked_credit (s : SSt) (flows : List LFlow) (s' : SSt) (tag : Nat)
    (h : takeAfterRoomAsSource s flows = (s', some tag)) :
    0 < (takeAfterRoom.replay' s flows).lc ∧ tag = (takeAfterRoom.replay' s flows).dc ∧
    s'.lc = (takeAfterRoom.replay' s flows).lc - 1 := by
  unfold takeAfterRoomAsSource takeAfterRoom at h
  rw [source_take_rechecks] at h
  simp only [if_true] at h
  unfold consume at h
  split at h
  · rename_i hc
    split at hc
    · cases hc
    · rename_i hlt
      injection hc with hc
      injection hc with h1 h2
      injection h with h3 h4
      injection h4 with h4
      subst h1 h2 h3
      simp only [consume_link_credit.cond_if_0] at hlt
      refine ⟨by simp at hlt; omega, h4.symm, ?_⟩
      simp [consume_link_credit.assign_link_credit_0, ssub32]
  · injection h with _ h4
    cases h4

/-- taking the credit without looking again (a seeded change) transmits on a credit a flow took back -/
example : (takeAfterRoom false { dc := 2, lc := 1, initDc := 0, drain := false }
    [{ dc := some 1, credit := some 1, drain := false, echo := false }]).2 = some 2 := by decide
example : (takeAfterRoomAsSource { dc := 2, lc := 1, initDc := 0, drain := false }
    [{ dc := some 1, credit := some 1, drain := false, echo := false }]).2 = none := by decide

theorem source_replay_oldest_first : replayOldestFirst = true := by decide

theorem onFlow_no_drain (s : SSt) (f : LFlow) (hd : f.drain = false) :
    (onFlow s f).1.dc = s.dc ∧ (onFlow s f).1.initDc = s.initDc := by
  unfold onFlow
  simp only [sender_on_incoming_flow.cond_if_0, hd, Bool.false_eq_true, if_false]
  unfold grant
  cases f.credit <;> simp

theorem replay_no_drain (flows : List LFlow) (hd : ∀ f ∈ flows, f.drain = false) :
    ∀ (s : SSt), (replay s flows).dc = s.dc ∧ (replay s flows).initDc = s.initDc := by
  induction flows with
  | nil => intro s; exact ⟨rfl, rfl⟩
  | cons f fs ih =>
    intro s
    have h1 := onFlow_no_drain s f (hd f List.mem_cons_self)
    have h2 := ih (fun g hg => hd g (List.mem_cons_of_mem _ hg)) (onFlow s f).1
    simp only [replay, List.foldl_cons] at h2 ⊢
    exact ⟨h2.1.trans h1.1, h2.2.trans h1.2⟩

/-- **latest_flow_decides (C08, listener side).** Whatever link flows a receiver pipelined behind its
    attach (none of them a drain request), once the listener has accepted the link its credit is what
    the LAST of them grants — the same as if only that flow had arrived — so the sender transmits no
    more than the receiver's latest flow allows and does not wait when that flow grants credit. -/
theorem latest_flow_decides (s : SSt) (flows : List LFlow) (f : LFlow) (c : Nat) (hc : f.credit = some c)
    (hd : ∀ g ∈ flows, g.drain = false) (hf : f.drain = false) :
    (replayAsSource s (flows ++ [f])).lc = (onFlow s f).1.lc := by
  simp only [replayAsSource, source_replay_oldest_first, if_true, replay, List.foldl_append, List.foldl_cons,
    List.foldl_nil]
  have h := replay_no_drain flows hd s
  simp only [replay] at h
  have key : ∀ s' : SSt, s'.dc = s.dc → s'.initDc = s.initDc → (onFlow s' f).1.lc = (onFlow s f).1.lc := by
    intro s' h1 h2
    unfold onFlow
    simp only [sender_on_incoming_flow.cond_if_0, hf, Bool.false_eq_true, if_false]
    unfold grant
    simp only [hc, h1, h2]
  exact key _ h.1 h.2

/-- with the newest applied first (what a seeded `pop` loop does) the OLDEST flow decides: five credits
    granted and then withdrawn leave the sender with five -/
example : (replay (attached 0) ([⟨none, some 5, false, false⟩, ⟨none, some 0, false, false⟩] : List LFlow).reverse).lc = 5
    ∧ (replayAsSource (attached 0) [⟨none, some 5, false, false⟩, ⟨none, some 0, false, false⟩]).lc = 0 := by decide

end Amqp.Credit
