/-
  C20 — the io reader refines the slice reader: every operation of the `Read` trait on an `IoReader`
  returns what it returns on a `SliceReader` over the bytes not yet handed out, fails exactly when
  that one fails, and leaves an io reader that stands for the slice reader's new state — so a decoder
  written against the trait sees the same bytes and counts the same bytes consumed from either.
-/
import Amqp.IoRead

namespace Amqp.IoRead

theorem srcExact_some (src : Bytes) (n : Nat) (a b : Bytes) (h : srcExact src n = some (a, b)) :
    src = a ++ b ∧ a.length = n := by
  unfold srcExact at h
  split at h
  · cases h
  · cases h
    refine ⟨(List.take_append_drop n src).symm, ?_⟩
    simp [List.length_take]; omega

theorem srcExact_none (src : Bytes) (n : Nat) : srcExact src n = none ↔ src.length < n := by
  unfold srcExact; split <;> simp_all

/-- what `fill_buffer` does when it succeeds: nothing is lost, nothing is counted, the buffer holds
    `len` bytes (exactly `len` if it held fewer before) -/
theorem fill_some : ∀ (fuel : Nat) (r r' : Io) (len : Nat), fill fuel r len = some r' →
    r'.buf ++ r'.src = r.buf ++ r.src ∧ r'.consumed = r.consumed ∧ len ≤ r'.buf.length ∧
    (r.buf.length < len → r'.buf.length = len)
  | 0, r, r', len, h => by
    simp only [fill] at h
    split at h
    · cases h
    · cases h; exact ⟨rfl, rfl, by omega, fun hh => by omega⟩
  | fuel + 1, r, r', len, h => by
    simp only [fill] at h
    split at h
    · rename_i hlt
      cases hs : srcExact r.src (min (len - r.buf.length) CHUNK) with
      | none => simp [hs] at h
      | some p =>
        obtain ⟨piece, rest⟩ := p
        simp only [hs] at h
        obtain ⟨hsrc, hlen⟩ := srcExact_some _ _ _ _ hs
        obtain ⟨h1, h2, h3, h4⟩ := fill_some fuel _ r' len h
        refine ⟨?_, h2, h3, fun _ => ?_⟩
        · rw [h1]; simp only [List.append_assoc]; rw [← hsrc]
        · by_cases hc : (r.buf ++ piece).length < len
          · exact h4 hc
          · -- the piece completed the buffer exactly
            have hp : (r.buf ++ piece).length ≤ len := by
              simp only [List.length_append, hlen]; omega
            have heq : (r.buf ++ piece).length = len := by omega
            cases fuel with
            | zero =>
              simp only [fill] at h
              split at h
              · cases h
              · cases h; exact heq
            | succ f =>
              simp only [fill] at h
              split at h
              · rename_i hh; exact absurd hh hc
              · cases h; exact heq
    · cases h; exact ⟨rfl, rfl, by omega, fun hh => by omega⟩

/-- `fill_buffer` fails exactly when the reader does not have `len` bytes left -/
theorem fill_none : ∀ (fuel : Nat) (r : Io) (len : Nat), len - r.buf.length < fuel →
    (fill fuel r len = none ↔ (r.buf ++ r.src).length < len)
  | 0, r, len, hf => by omega
  | fuel + 1, r, len, hf => by
    simp only [fill]
    split
    · rename_i hlt
      cases hs : srcExact r.src (min (len - r.buf.length) CHUNK) with
      | none =>
        simp only [true_iff]
        have := (srcExact_none _ _).mp hs
        simp only [List.length_append]
        have hmin : min (len - r.buf.length) CHUNK ≤ len - r.buf.length := Nat.min_le_left _ _
        omega
      | some p =>
        obtain ⟨piece, rest⟩ := p
        simp only []
        obtain ⟨hsrc, hlen⟩ := srcExact_some _ _ _ _ hs
        have hpos : 1 ≤ piece.length := by
          rw [hlen]; simp only [CHUNK]; omega
        have ih := fill_none fuel { r with buf := r.buf ++ piece, src := rest } len
          (by simp only [List.length_append]; omega)
        rw [ih]
        simp only [List.append_assoc]
        rw [← hsrc]
    · rename_i hge
      simp only [reduceCtorEq, false_iff, List.length_append]
      omega

theorem peek_refines (r : Io) : (r.peek).1 = (abs r).peek ∧ abs (r.peek).2 = abs r := by
  unfold Io.peek Sl.peek abs
  cases hb : r.buf with
  | cons b bs => simp [hb]
  | nil =>
    cases hs : r.src with
    | cons b rest => simp [hb, hs]
    | nil => simp [hb, hs]

theorem next_refines (r : Io) :
    (r.next = none ↔ (abs r).next = none) ∧
    (∀ b r', r.next = some (b, r') → (abs r).next = some (b, abs r')) := by
  unfold Io.next Sl.next abs
  cases hb : r.buf with
  | cons b bs =>
    refine ⟨by simp [hb], fun b' r' h => ?_⟩
    simp only [hb, Option.some.injEq, Prod.mk.injEq] at h
    obtain ⟨h1, h2⟩ := h
    subst h1 h2; simp [hb]
  | nil =>
    cases hs : r.src with
    | cons b rest =>
      refine ⟨by simp [hb, hs], fun b' r' h => ?_⟩
      simp only [hb, hs, Option.some.injEq, Prod.mk.injEq] at h
      obtain ⟨h1, h2⟩ := h
      subst h1 h2; simp [hb, hs]
    | nil => simp [hb, hs]

theorem peekBytes_refines (r : Io) (n : Nat) :
    (r.peekBytes n = none ↔ (abs r).peekBytes n = none) ∧
    (∀ bs r', r.peekBytes n = some (bs, r') → (abs r).peekBytes n = some bs ∧ abs r' = abs r) := by
  unfold Io.peekBytes Sl.peekBytes Io.fillBuffer
  by_cases hlt : r.buf.length < n
  · simp only [hlt, if_true]
    have hn := fill_none (n + 1) r n (by omega)
    cases hf : fill (n + 1) r n with
    | none =>
      have := hn.mp hf
      simp only [abs, this, if_true, true_and]
      intro bs r' h; cases h
    | some r1 =>
      obtain ⟨h1, h2, h3, _⟩ := fill_some _ _ _ _ hf
      have hnot : ¬ (r.buf ++ r.src).length < n := by
        intro hc; have := hn.mpr hc; rw [hf] at this; cases this
      simp only [abs, hnot, if_false, reduceCtorEq, false_iff, not_false_eq_true, true_and, Option.some.injEq,
        Prod.mk.injEq, and_imp]
      intro bs r' hb hr
      subst hb hr
      refine ⟨?_, by simp [h1, h2]⟩
      rw [← h1, List.take_append_of_le_length h3]
  · simp only [hlt, if_false, abs]
    have hnot : ¬ (r.buf ++ r.src).length < n := by simp only [List.length_append]; omega
    simp only [hnot, if_false, reduceCtorEq, false_iff, not_false_eq_true, true_and, Option.some.injEq, Prod.mk.injEq,
      and_imp]
    intro bs r' hb hr
    subst hb hr
    refine ⟨?_, rfl⟩
    rw [List.take_append_of_le_length (by omega)]

theorem readExact_refines (r : Io) (n : Nat) :
    (r.readExact n = none ↔ (abs r).readExact n = none) ∧
    (∀ bs r', r.readExact n = some (bs, r') → (abs r).readExact n = some (bs, abs r')) := by
  unfold Io.readExact Sl.readExact
  by_cases hlt : r.buf.length < n
  · simp only [hlt, if_true]
    cases hs : srcExact r.src (n - r.buf.length) with
    | none =>
      have := (srcExact_none _ _).mp hs
      have hh : (abs r).rest.length < n := by simp only [abs, List.length_append]; omega
      simp only [hh, if_true, true_and]
      intro bs r' h; cases h
    | some p =>
      obtain ⟨piece, rest⟩ := p
      obtain ⟨hsrc, hlen⟩ := srcExact_some _ _ _ _ hs
      have hh : ¬ (abs r).rest.length < n := by
        simp only [abs, List.length_append, hsrc, hlen]; omega
      simp only [hh, if_false, reduceCtorEq, false_iff, not_false_eq_true, true_and, Option.some.injEq, Prod.mk.injEq,
        and_imp]
      intro bs r' hb hr
      subst hb hr
      have hl : (r.buf ++ piece).length = n := by simp only [List.length_append, hlen]; omega
      simp only [abs, hsrc, List.nil_append]
      rw [← List.append_assoc, List.take_append_of_le_length (by omega), List.drop_append_of_le_length (by omega)]
      simp [← hl, List.take_of_length_le, List.drop_eq_nil_of_le]
  · have hh : ¬ (abs r).rest.length < n := by simp only [abs, List.length_append]; omega
    simp only [hlt, hh, if_false, reduceCtorEq, false_iff, not_false_eq_true, true_and, Option.some.injEq,
      Prod.mk.injEq, and_imp]
    intro bs r' hb hr
    subst hb hr
    simp only [abs]
    rw [List.take_append_of_le_length (by omega), List.drop_append_of_le_length (by omega)]
    exact ⟨rfl, rfl⟩

/-- `forward_read_bytes_with_hint` / `forward_read_str` hand out what `read_exact` hands out -/
theorem forwardBytes_refines (r : Io) (n : Nat) :
    (r.forwardBytes n = none ↔ (abs r).readExact n = none) ∧
    (∀ bs r', r.forwardBytes n = some (bs, r') → (abs r).readExact n = some (bs, abs r')) := by
  unfold Io.forwardBytes Io.fillBuffer Sl.readExact
  have hn := fill_none (n + 1) r n (by omega)
  cases hf : fill (n + 1) r n with
  | none =>
    have := hn.mp hf
    simp only [abs, this, if_true, true_and]
    intro bs r' h; cases h
  | some r1 =>
    obtain ⟨h1, h2, h3, _⟩ := fill_some _ _ _ _ hf
    have hnot : ¬ (r.buf ++ r.src).length < n := by
      intro hc; have := hn.mpr hc; rw [hf] at this; cases this
    simp only [abs, hnot, if_false, reduceCtorEq, false_iff, not_false_eq_true, true_and, Option.some.injEq,
      Prod.mk.injEq, and_imp]
    intro bs r' hb hr
    subst hb hr
    simp only [← h1, h2]
    rw [List.take_append_of_le_length h3, List.drop_append_of_le_length h3]
    simp

/-- **io_refines_slice (C20).** Whatever the stream's chunking: on every reader state, each of `peek`,
    `next`, `peek_bytes`, `read_exact` and the forwarding reads returns on the io reader what it returns
    on the slice reader over the bytes not yet handed out, fails exactly when that one fails, and the
    two readers then stand for the same remaining bytes and the same count of bytes consumed. -/
theorem io_refines_slice (r : Io) (n : Nat) :
    ((r.peek).1 = (abs r).peek ∧ abs (r.peek).2 = abs r) ∧
    ((r.next = none ↔ (abs r).next = none) ∧ ∀ b r', r.next = some (b, r') → (abs r).next = some (b, abs r')) ∧
    ((r.peekBytes n = none ↔ (abs r).peekBytes n = none) ∧
      ∀ bs r', r.peekBytes n = some (bs, r') → (abs r).peekBytes n = some bs ∧ abs r' = abs r) ∧
    ((r.readExact n = none ↔ (abs r).readExact n = none) ∧
      ∀ bs r', r.readExact n = some (bs, r') → (abs r).readExact n = some (bs, abs r')) ∧
    ((r.forwardBytes n = none ↔ (abs r).readExact n = none) ∧
      ∀ bs r', r.forwardBytes n = some (bs, r') → (abs r).readExact n = some (bs, abs r')) :=
  ⟨peek_refines r, next_refines r, peekBytes_refines r n, readExact_refines r n, forwardBytes_refines r n⟩

/-- generated obligation: the buffer and counter operations the model mirrors are present in
    read/ioread.rs, in the model's order -/
theorem source_io_shape : sourceShape = true := by decide
theorem source_stream_only_through_read_exact : streamOnlyThroughReadExact = true := by decide

/-- non-vacuity: a reader with a byte looked at and a stream behind it -/
example : (Io.readExact { buf := [1], src := [2, 3, 4], consumed := 5 } 3) =
    some ([1, 2, 3], { buf := [], src := [4], consumed := 8 }) := by decide

end Amqp.IoRead
