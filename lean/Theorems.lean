-- Root of the theorem library: property theorems (Theorems/Cxx.lean) and helper lemmas.
import Theorems.Lemmas.U32
import Theorems.Lemmas.Session
import Theorems.Lemmas.Credit
import Theorems.C07
import Theorems.C08
import Theorems.C09
import Theorems.Lemmas.Frame
import Theorems.C06
import Theorems.Lemmas.Codec
import Theorems.C03
import Theorems.C20
import Theorems.C04
import Theorems.C10
import Theorems.C11
import Theorems.Typed
import Theorems.C03T
import Theorems.Message
