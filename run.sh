#!/bin/sh
# Single entry point: ./run.sh setup | ./run.sh Cxx quick|thorough | ./run.sh replay Cxx <file>
cd "$(dirname "$0")" || exit 2
export CARGO_NET_OFFLINE=true
exec python3 tools/check.py "$@"
